// Witness for the C02 finding repaired by /repo commit 02cf654 (copy to the module root to run; about 15 s,
// 500 MB). Before the repair Encode succeeds and Decode fails; after it Encode returns an error.
package webp_test

import (
	"bytes"
	"image"
	"testing"

	"github.com/deepteams/webp"
)

func TestP0Overflow(t *testing.T) {
	const W, H = 5520, 5520
	img := image.NewNRGBA(image.Rect(0, 0, W, H))
	s := uint32(12345)
	for i := 0; i < len(img.Pix); i += 4 {
		s = s*1664525 + 1013904223
		p := i / 4; x, y := p%W, p/W; v := byte((x*x + y*y) / 7); img.Pix[i], img.Pix[i+1], img.Pix[i+2], img.Pix[i+3] = v, v, v, 255
	}
	opts := webp.DefaultOptions()
	opts.Quality = 75
	opts.Method = 4
	var buf bytes.Buffer
	err := webp.Encode(&buf, img, opts)
	t.Logf("encode err=%v size=%d", err, buf.Len())
	if err != nil {
		return
	}
	b := buf.Bytes()
	// VP8 chunk at offset 12: "VP8 " size, then frame tag
	tag := uint32(b[20]) | uint32(b[21])<<8 | uint32(b[22])<<16
	t.Logf("fourcc=%s partition0 size field=%d", b[12:16], tag>>5)
	_, derr := webp.Decode(bytes.NewReader(b))
	t.Logf("decode err=%v", derr)
	if derr != nil {
		t.Fatalf("Encode succeeded but the file does not decode: %v", derr)
	}
}
