package webp

import (
	"image"
	"image/color"

	"github.com/deepteams/webp/internal/lossless"
	"github.com/deepteams/webp/internal/lossy"
	"github.com/deepteams/webp/internal/verifapi"
)

// Shared helpers for the glue harnesses (C07/C15/C16/C19/C20). Under the engine the codec entry
// points are redirected to the capture stubs in internal/{lossy,lossless}/zz_verif_stubs.go.

func vGlueReset() {
	lossy.VerifResetCalls()
	lossless.VerifResetCalls()
}

func vGlueInit() {
	lossy.VerifFakeOdd = verifapi.Bool("fake_odd")
	lossless.VerifFakeEven = verifapi.Bool("fake_even")
	vGlueReset()
}

// vSymImage returns a w x h NRGBA image at the origin with nondeterministic pixels.
// alphaMode: 0 = opaque, 1 = arbitrary alpha.
func vSymImage(w, h, alphaMode int) *image.NRGBA {
	img := image.NewNRGBA(image.Rect(0, 0, w, h))
	for i := 0; i < w*h; i++ {
		img.Pix[4*i] = verifapi.U8("px_r")
		img.Pix[4*i+1] = verifapi.U8("px_g")
		img.Pix[4*i+2] = verifapi.U8("px_b")
		if alphaMode == 0 {
			img.Pix[4*i+3] = 255
		} else {
			img.Pix[4*i+3] = verifapi.U8("px_a")
		}
	}
	return img
}

func vSamePix(a, b []color.NRGBA) bool {
	if len(a) != len(b) {
		return false
	}
	for i := range a {
		if a[i] != b[i] {
			return false
		}
	}
	return true
}

func vSameBytes(a, b []byte) bool {
	if len(a) != len(b) {
		return false
	}
	for i := range a {
		if a[i] != b[i] {
			return false
		}
	}
	return true
}

func vSameU32(a, b []uint32) bool {
	if len(a) != len(b) {
		return false
	}
	for i := range a {
		if a[i] != b[i] {
			return false
		}
	}
	return true
}

// vCalls is a snapshot of what the codecs were asked to do during one Encode call.
type vCalls struct {
	enc   []lossy.VerifEncCall
	alpha []lossy.VerifAlphaCall
	ll    []lossless.VerifEncCall
}

func vTakeCalls() vCalls {
	c := vCalls{enc: lossy.VerifEncCalls, alpha: lossy.VerifAlphaCalls, ll: lossless.VerifEncCalls}
	vGlueReset()
	return c
}

// vSameCalls: the two Encode runs asked the codecs for exactly the same work.
func vSameCalls(a, b vCalls) bool {
	if len(a.enc) != len(b.enc) || len(a.alpha) != len(b.alpha) || len(a.ll) != len(b.ll) {
		return false
	}
	for i := range a.enc {
		x, y := a.enc[i], b.enc[i]
		if x.Cfg != y.Cfg || x.W != y.W || x.H != y.H || x.YUV != y.YUV || !vSamePix(x.Pix, y.Pix) {
			return false
		}
	}
	for i := range a.alpha {
		x, y := a.alpha[i], b.alpha[i]
		if x.Cfg != y.Cfg || x.W != y.W || x.H != y.H || !vSameBytes(x.Alpha, y.Alpha) {
			return false
		}
	}
	for i := range a.ll {
		x, y := a.ll[i], b.ll[i]
		if x.Cfg != y.Cfg || x.W != y.W || x.H != y.H || !vSameU32(x.Argb, y.Argb) {
			return false
		}
	}
	return true
}

// vRichImage is a fixed 48x40 picture (gradients + pseudo-noise, some transparency when alpha != 0)
// used only in native replay, where the real codecs run: a candidate found on the tiny symbolic
// image is re-examined on a picture large enough for segment/partition/filter options to matter.
func vRichImage(alpha int) *image.NRGBA {
	img := image.NewNRGBA(image.Rect(0, 0, 48, 40))
	s := uint32(12345)
	for y := 0; y < 40; y++ {
		for x := 0; x < 48; x++ {
			s = s*1664525 + 1013904223
			n := uint8(s >> 27)
			i := y*img.Stride + 4*x
			img.Pix[i] = uint8(x*5) + n
			img.Pix[i+1] = uint8(y*6) + n
			img.Pix[i+2] = uint8((x+y)*3) ^ n
			img.Pix[i+3] = 255
			if alpha != 0 && (x/8+y/8)%3 == 0 {
				img.Pix[i+3] = uint8(x * 4)
			}
		}
	}
	return img
}

// vNativeSameOutput (native replay only): Encode(img,a) and Encode(img,b) give identical bytes on the rich image.
func vNativeSameOutput(a, b *EncoderOptions, alpha int) bool {
	if verifapi.Symbolic() {
		return true
	}
	img := vRichImage(alpha)
	o1, o2 := &vBuf{}, &vBuf{}
	e1 := Encode(o1, img, a)
	e2 := Encode(o2, img, b)
	return (e1 == nil) == (e2 == nil) && vSameBytes(o1.b, o2.b)
}
