package webp

import (
	"bytes"
	"image"
	"image/color"

	"github.com/deepteams/webp/internal/verifapi"
)

// vWrap hides the concrete type: a generic image.Image yielding the same colours.
type vWrap struct{ n *image.NRGBA }

func (v vWrap) ColorModel() color.Model { return color.NRGBAModel }
func (v vWrap) Bounds() image.Rectangle { return v.n.Bounds() }
func (v vWrap) At(x, y int) color.Color { return v.n.NRGBAAt(x, y) }

// vLayouts returns the same w x h symbolic pixels (a) at the origin with a tight stride,
// (b) as a sub-image view at (ox,oy) of a larger buffer with extra stride padding whose every
// other byte is nondeterministic garbage, (c) through a generic image.Image wrapper.
func vLayouts(w, h, alphaMode, ox, oy, pad int) (a, b *image.NRGBA, c image.Image, big *image.NRGBA, backing []byte) {
	a = vSymImage(w, h, alphaMode)
	big = image.NewNRGBA(image.Rect(0, 0, w+ox+pad, h+oy+1))
	for i := range big.Pix {
		big.Pix[i] = verifapi.U8("garbage")
	}
	for y := 0; y < h; y++ {
		for x := 0; x < w; x++ {
			big.SetNRGBA(ox+x, oy+y, a.NRGBAAt(x, y))
		}
	}
	b = big.SubImage(image.Rect(ox, oy, ox+w, oy+h)).(*image.NRGBA)
	backing = append([]byte(nil), big.Pix...)
	c = vWrap{a}
	return
}

// VerifH_C19_Layout: Encode depends on the picture, not on its storage. mode 0 lossy, 1 lossless,
// 2 lossy+Exact, 3 lossless+Exact.
func VerifH_C19_Layout(w, h, alphaMode, ox, oy, pad, mode int) {
	vGlueInit()
	a, b, c, big, backing := vLayouts(w, h, alphaMode, ox, oy, pad)
	if alphaMode == 1 {
		verifapi.Assume(a.Pix[3] != 255)
	}
	aCopy := append([]byte(nil), a.Pix...)
	opts := DefaultOptions()
	opts.Lossless = mode&1 == 1
	opts.Exact = mode >= 2
	oa, ob, oc := &vBuf{}, &vBuf{}, &vBuf{}
	ea := Encode(oa, a, opts)
	ca := vTakeCalls()
	eb := Encode(ob, b, opts)
	cb := vTakeCalls()
	ec := Encode(oc, c, opts)
	cc := vTakeCalls()
	verifapi.Assert(ea == nil && eb == nil && ec == nil, "all layouts are accepted")
	verifapi.Candidate(!verifapi.Symbolic() || vSameCalls(ca, cb), "sub-image view: the codecs receive the same picture/alpha/config as for the origin image")
	verifapi.Candidate(!verifapi.Symbolic() || vSameCalls(ca, cc), "generic image.Image: the codecs receive the same picture/alpha/config as for the origin image")
	verifapi.Assert(bytes.Equal(oa.b, ob.b), "sub-image view with offset, padding and garbage outside gives byte-identical output")
	verifapi.Assert(bytes.Equal(oa.b, oc.b), "generic image.Image gives byte-identical output")
	verifapi.Cover(true, "layouts compared")
	// the caller's images are never modified
	verifapi.Assert(bytes.Equal(a.Pix, aCopy), "origin image not modified")
	verifapi.Assert(bytes.Equal(big.Pix, backing), "sub-image backing buffer not modified")
}
