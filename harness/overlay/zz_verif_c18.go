package webp

import (
	"image"

	"github.com/deepteams/webp/internal/lossy"
	"github.com/deepteams/webp/internal/verifapi"
	"github.com/deepteams/webp/mux"
)

// VerifH_C18_FrameCodec: the frame codec registered for animations keeps the alpha plane in lossy
// mode: encodeFrameForAnimation -> real Muxer/Demuxer -> decodeFrameForAnimation returns exactly the
// source alpha channel (colour is lossy and not compared). Opaque pictures stay opaque.
// Under the engine the VP8 colour codec is a stub; the alpha path (alpha plane extraction, ALPH
// framing, mux split, demux, DecodeAlpha dispatch, buildNRGBA) is the real code.
func VerifH_C18_FrameCodec(w, h, alphaMode int) {
	vGlueInit()
	img := vSymImage(w, h, alphaMode)
	data, err := encodeFrameForAnimation(img, false, 75)
	verifapi.Assert(err == nil, "frame encodes")
	calls := vTakeCalls()
	if verifapi.Symbolic() {
		// the alpha coder is asked to code exactly the source alpha plane, losslessly
		anyAlpha := false
		for i := 0; i < w*h; i++ {
			if img.Pix[4*i+3] != 255 {
				anyAlpha = true
			}
		}
		if anyAlpha {
			verifapi.Assert(len(calls.alpha) == 1, "alpha plane handed to the alpha coder when the picture has transparency")
			a := calls.alpha[0]
			for i := 0; i < w*h; i++ {
				verifapi.Assert(a.Alpha[i] == img.Pix[4*i+3], "alpha coder receives the source alpha plane")
			}
			verifapi.Assert(a.Cfg.Quality == 100 && a.Cfg.Method == lossy.AlphaLosslessCompression, "alpha is coded losslessly at quality 100")
			verifapi.Cover(true, "picture with transparency")
		} else {
			verifapi.Assert(len(calls.alpha) == 0, "no alpha payload for an opaque picture")
		}
	}
	// through the real muxer and demuxer, as the animation encoder does
	m := mux.NewMuxer()
	m.SetCanvasSize(w, h)
	verifapi.Assert(m.AddFrame(data, &mux.FrameOptions{Duration: 40}) == nil, "muxer takes the frame")
	out := &vBuf{}
	verifapi.Assert(m.Assemble(out) == nil, "assemble")
	d, derr := mux.NewDemuxer(out.b)
	verifapi.Assert(derr == nil && d.NumFrames() == 1, "demux")
	fi, _ := d.Frame(0)
	dec, err := decodeFrameForAnimation(fi.Data, fi.AlphaData)
	verifapi.Assert(err == nil, "frame decodes")
	verifapi.Assert(dec.Bounds() == image.Rect(0, 0, w, h), "same size")
	for i := 0; i < w*h; i++ {
		verifapi.Assert(dec.Pix[4*i+3] == img.Pix[4*i+3], "played-back alpha equals the source alpha")
	}
}
