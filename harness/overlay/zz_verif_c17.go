package webp

import (
	"bytes"

	"github.com/deepteams/webp/internal/container"
	"github.com/deepteams/webp/internal/verifapi"
)

// VerifH_C17_ContainerPrefix: for a valid still file D (layout families of C16) and EVERY proper
// prefix D[:k], the container layer either fails or hands the codecs exactly the same payloads and
// reports the same features; DecodeConfig/GetFeatures on the prefix fail or report the same values.
// (Whether the codecs detect a payload cut inside the bitstream is the bit-reader lemma layer.)
func VerifH_C17_ContainerPrefix(layout, plen, alen int) {
	file, _, _ := vStillFile(layout, plen, alen)
	full, err := container.NewParser(file)
	verifapi.Assume(err == nil && len(full.Frames()) == 1)
	ff := full.Features()
	fr := full.Frames()[0]
	cfgF, cerr := DecodeConfig(bytes.NewReader(file))
	featF, ferr := GetFeatures(bytes.NewReader(file))
	verifapi.Assert(cerr == nil && ferr == nil, "header queries accept the complete file")
	verifapi.Bound("file length", len(file))
	for k := 0; k < len(file); k++ {
		pre := file[:k]
		p, err := container.NewParser(pre)
		if err == nil {
			verifapi.Cover(true, "some proper prefix is accepted by the container layer")
			pf := p.Features()
			verifapi.Assert(pf.Width == ff.Width && pf.Height == ff.Height && pf.HasAlpha == ff.HasAlpha && pf.HasAnim == ff.HasAnim && pf.Format == ff.Format, "prefix: same features as the complete file")
			verifapi.Assert(len(p.Frames()) == 1, "prefix: one frame")
			q := p.Frames()[0]
			verifapi.Assert(q.IsLossless == fr.IsLossless && q.Width == fr.Width && q.Height == fr.Height, "prefix: same frame header")
			verifapi.Assert(bytes.Equal(q.Payload, fr.Payload), "prefix accepted => the codec receives the complete bitstream payload")
			verifapi.Assert(bytes.Equal(q.AlphaData, fr.AlphaData) && (q.AlphaData == nil) == (fr.AlphaData == nil), "prefix accepted => the codec receives the complete alpha payload")
		}
		cfg, cerr := DecodeConfig(bytes.NewReader(pre))
		if cerr == nil {
			verifapi.Assert(cfg.Width == cfgF.Width && cfg.Height == cfgF.Height && cfg.ColorModel == cfgF.ColorModel, "DecodeConfig on a prefix fails or reports the same values")
		}
		feat, ferr := GetFeatures(bytes.NewReader(pre))
		if ferr == nil {
			verifapi.Assert(*feat == *featF, "GetFeatures on a prefix fails or reports the same values")
		}
	}
}
