package webp

import (
	"bytes"
	"image"

	"github.com/deepteams/webp/animation"
	"github.com/deepteams/webp/internal/verifapi"
	"github.com/deepteams/webp/mux"
)

// vSmallBitstream: header-valid bitstream with symbolic dims in 1..2 (kept tiny because the stubbed
// decoders allocate planes of that size) and plen symbolic payload bytes.
func vSmallBitstream(kind, plen int) (bs []byte, w, h int, la bool) {
	bs, w, h, la = vBitstream(kind, plen)
	verifapi.Assume(w <= 2 && h <= 2)
	return
}

// vStillFile builds a still WebP of the given layout with symbolic contents.
//   0 simple VP8, 1 simple VP8L, 2 VP8X+VP8, 3 VP8X+ALPH+VP8, 4 VP8X+VP8L, 5 VP8X+ICCP+VP8+EXIF+XMP,
//   6 VP8X+unknown+VP8, 7 VP8X+ICCP+ALPH+VP8
func vStillFile(layout, plen, alen int) (file []byte, w, h int) {
	return vStillFileCanvas(layout, plen, alen, false)
}

// vStillFileCanvas: with freeCanvas the VP8X canvas of the extended layouts is symbolic and independent of
// the bitstream's dimensions (a file some other writer may produce; Decode is free to reject it).
func vStillFileCanvas(layout, plen, alen int, freeCanvas bool) (file []byte, w, h int) {
	kind := 0
	if layout == 1 || layout == 4 {
		kind = 1
	}
	bs, w, h, _ := vSmallBitstream(kind, plen)
	tag := "VP8 "
	if kind == 1 {
		tag = "VP8L"
	}
	img := vChunkBytes(tag, bs)
	if layout <= 1 {
		return vRIFF(img), w, h
	}
	flags := verifapi.U8("vp8x_flags") & 0x3c // alpha/ICC/EXIF/XMP bits arbitrary (may over- or under-state), no animation
	cw, ch := w, h // well-formed still: canvas = image size
	if freeCanvas {
		cw, ch = int(verifapi.U32("canvas_w")&0xffffff)+1, int(verifapi.U32("canvas_h")&0xffffff)+1
	}
	x := vVP8X(flags, cw, ch)
	switch layout {
	case 2, 4:
		return vRIFF(x, img), w, h
	case 3:
		return vRIFF(x, vChunkBytes("ALPH", verifapi.Bytes("alph", alen)), img), w, h
	case 5:
		return vRIFF(x, vChunkBytes("ICCP", verifapi.Bytes("icc", 1)), img, vChunkBytes("EXIF", verifapi.Bytes("exif", 2)), vChunkBytes("XMP ", verifapi.Bytes("xmp", 1))), w, h
	case 6:
		return vRIFF(x, vChunkBytes("UNKN", verifapi.Bytes("unk", 3)), img), w, h
	default:
		return vRIFF(x, vChunkBytes("ICCP", verifapi.Bytes("icc", 2)), vChunkBytes("ALPH", verifapi.Bytes("alph", alen)), img), w, h
	}
}

// VerifH_C16_Still: for every still file Decode accepts, DecodeConfig and GetFeatures succeed and
// report the decoded image's size and colour model; the container views agree.
func VerifH_C16_Still(layout, plen, alen int) {
	vC16Still(layout, plen, alen, false)
}

// VerifH_C16_StillCanvas: the first sentence of the property on extended stills whose VP8X canvas is
// arbitrary: whenever Decode accepts such a file, DecodeConfig and GetFeatures report the size and colour
// model of the image Decode returns (the views of the demuxer and the animation reader are only compared
// on well-formed files, where the canvas equals the image size).
func VerifH_C16_StillCanvas(layout, plen, alen int) {
	vC16Still(layout, plen, alen, true)
}

func vC16Still(layout, plen, alen int, freeCanvas bool) {
	file, w, h := vStillFileCanvas(layout, plen, alen, freeCanvas)
	img, err := Decode(bytes.NewReader(file))
	if err != nil {
		return
	}
	verifapi.Cover(true, "Decode accepts")
	cfg, cerr := DecodeConfig(bytes.NewReader(file))
	feat, ferr := GetFeatures(bytes.NewReader(file))
	verifapi.Assert(cerr == nil && ferr == nil, "DecodeConfig and GetFeatures succeed on a file Decode accepts")
	b := img.Bounds()
	verifapi.Assert(b.Dx() == w && b.Dy() == h && b.Min.X == 0 && b.Min.Y == 0, "decoded image has the bitstream's size")
	verifapi.Assert(cfg.Width == b.Dx() && cfg.Height == b.Dy(), "DecodeConfig reports the decoded size")
	verifapi.Assert(feat.Width == b.Dx() && feat.Height == b.Dy(), "GetFeatures reports the decoded size")
	verifapi.Assert(cfg.ColorModel == img.ColorModel(), "DecodeConfig colour model equals the decoded image's colour model")
	_, isNRGBA := img.(*image.NRGBA)
	_, isYCbCr := img.(*image.YCbCr)
	verifapi.Assert(isNRGBA || isYCbCr, "decoded image is NRGBA or YCbCr")
	verifapi.Assert(!feat.HasAnimation && feat.FrameCount == 1, "a still has one frame and no animation flag")
	wantFmt := "extended"
	if layout == 0 {
		wantFmt = "lossy"
	} else if layout == 1 {
		wantFmt = "lossless"
	}
	verifapi.Assert(feat.Format == wantFmt, "format name")
	// image.Decode / image.DecodeConfig dispatch: the registered magic matches this file
	verifapi.Assert(string(file[0:4]) == "RIFF" && string(file[8:12]) == "WEBP", "file matches the registered magic RIFF????WEBP")
	if freeCanvas {
		return
	}
	// the other container views agree
	d, derr := mux.NewDemuxer(file)
	verifapi.Assert(derr == nil, "demuxer accepts the file")
	df := d.GetFeatures()
	verifapi.Assert(df.Width == feat.Width && df.Height == feat.Height, "demuxer: same canvas")
	verifapi.Assert(df.HasAnimation == feat.HasAnimation && d.NumFrames() == feat.FrameCount, "demuxer: same animation flag and frame count")
	a, aerr := animation.DecodeBytes(file)
	verifapi.Assert(aerr == nil, "animation reader accepts the file")
	verifapi.Assert(a.CanvasWidth == feat.Width && a.CanvasHeight == feat.Height && len(a.Frames) == feat.FrameCount, "animation reader: same canvas and frame count")
}

// VerifH_C16_Anim: for a well-formed animated file the four container views agree on canvas size,
// animation flag, frame count and loop count.  nf frames (1..2), kinds base 3 (0 VP8, 1 VP8L, 2 ALPH+VP8).
func VerifH_C16_Anim(nf, kinds, plen int) {
	cw, ch := int(verifapi.U32("cw")&0xffffff)+1, int(verifapi.U32("ch")&0xffffff)+1
	verifapi.Assume(uint64(cw)*uint64(ch) < 1<<30)
	flags := (verifapi.U8("vp8x_flags") & 0x3c) | 0x02
	loop := int(verifapi.U16("loop"))
	chunks := [][]byte{vVP8X(flags, cw, ch), vANIM(verifapi.U32("bg"), loop)}
	k := kinds
	for i := 0; i < nf; i++ {
		kind := k % 3
		k /= 3
		bk := kind
		if bk == 2 {
			bk = 0
		}
		bs, w, h, _ := vBitstream(bk, plen)
		x, y := int(verifapi.U32("fx")&0xffffff)*2, int(verifapi.U32("fy")&0xffffff)*2
		verifapi.Assume(x+w <= cw && y+h <= ch) // well-formed: frames inside the canvas
		tag := "VP8 "
		if bk == 1 {
			tag = "VP8L"
		}
		var sub [][]byte
		if kind == 2 {
			sub = append(sub, vChunkBytes("ALPH", verifapi.Bytes("alph", 1+i)))
		}
		sub = append(sub, vChunkBytes(tag, bs))
		chunks = append(chunks, vANMF(x, y, w, h, int(verifapi.U32("dur")&0xffffff), verifapi.U8("fflags")&3, sub...))
	}
	file := vRIFF(chunks...)
	feat, ferr := GetFeatures(bytes.NewReader(file))
	cfg, cerr := DecodeConfig(bytes.NewReader(file))
	d, derr := mux.NewDemuxer(file)
	a, aerr := animation.DecodeBytes(file)
	verifapi.Assert(ferr == nil && cerr == nil && derr == nil && aerr == nil, "all four views accept a well-formed animated file")
	verifapi.Cover(true, "animated file accepted")
	df := d.GetFeatures()
	verifapi.Assert(feat.Width == cw && feat.Height == ch && cfg.Width == cw && cfg.Height == ch && df.Width == cw && df.Height == ch && a.CanvasWidth == cw && a.CanvasHeight == ch, "all views report the canvas size")
	verifapi.Assert(feat.HasAnimation && df.HasAnimation, "animation flag")
	verifapi.Assert(feat.FrameCount == nf && d.NumFrames() == nf && len(a.Frames) == nf, "frame count")
	verifapi.Assert(feat.LoopCount == loop && d.LoopCount() == loop && a.LoopCount == loop, "loop count")
}
