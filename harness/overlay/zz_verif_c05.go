package webp

import (
	"bytes"

	"github.com/deepteams/webp/internal/verifapi"
)

// VerifH_C05_Config: DecodeConfig and GetFeatures never panic on any byte string of length n.
func VerifH_C05_Config(n int) {
	data := verifapi.Bytes("d", n)
	verifapi.Bound("input bytes", n)
	cfg, err := DecodeConfig(bytes.NewReader(data))
	f, err2 := GetFeatures(bytes.NewReader(data))
	verifapi.Assert((err == nil) == (err2 == nil), "DecodeConfig and GetFeatures accept the same inputs")
	if err != nil {
		return
	}
	verifapi.Cover(true, "some input accepted")
	verifapi.Assert(cfg.Width > 0 && cfg.Height > 0, "positive dimensions")
	verifapi.Assert(cfg.Width == f.Width && cfg.Height == f.Height, "same dimensions")
	verifapi.Assert(cfg.ColorModel != nil, "colour model set")
}
