package mux

import "github.com/deepteams/webp/internal/verifapi"

// VerifH_C05_Demux: NewDemuxer and the accessors never panic on any byte string of length n,
// and every slice handed out lies inside the input (checked by the engine's bounds obligations).
func VerifH_C05_Demux(n int) {
	data := verifapi.Bytes("d", n)
	verifapi.Bound("input bytes", n)
	d, err := NewDemuxer(data)
	if err != nil {
		verifapi.Assert(d == nil, "error result carries no demuxer")
		return
	}
	verifapi.Cover(true, "demuxer accepts some input")
	f := d.GetFeatures()
	verifapi.Assert(f.Width >= 0 && f.Height >= 0, "accepted file has non-negative canvas")
	nf := d.NumFrames()
	verifapi.Assert(nf <= maxFrames, "frame cap respected")
	for i := 0; i < nf; i++ {
		fr, err := d.Frame(i)
		verifapi.Assert(err == nil && fr != nil, "frame index in range is served")
		verifapi.Assert(len(fr.Data) <= n && len(fr.AlphaData) <= n, "frame payloads are sub-slices of the input")
	}
	_, err = d.Frame(nf)
	verifapi.Assert(err != nil, "frame index out of range is an error")
	it := d.NewFrameIterator()
	k := 0
	for it.HasNext() {
		_, err := it.Next()
		verifapi.Assert(err == nil, "iterator next")
		k++
	}
	verifapi.Assert(k == nf, "iterator visits every frame once")
	_, _ = d.GetChunk(FourCCICCP)
	_, _ = d.GetChunk(FourCCEXIF)
	_, _ = d.GetChunk(FourCCXMP)
	_ = d.LoopCount()
	_ = d.BackgroundColor()
}
