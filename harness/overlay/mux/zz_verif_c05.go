package mux

import "github.com/deepteams/webp/internal/verifapi"

// VerifH_C05_Demux: NewDemuxer and the accessors never panic on any byte string of length n,
// and every slice handed out lies inside the input (checked by the engine's bounds obligations).
func VerifH_C05_Demux(n int) {
	data := verifapi.Bytes("d", n)
	verifapi.Bound("input bytes", n)
	vCheckDemux(data, n)
}

// VerifH_C05_DemuxANMF: as VerifH_C05_Demux, but the input starts with a fixed skeleton that leads the
// demuxer into its animation-frame parser - RIFF....WEBP, a VP8X chunk (flags, reserved bytes and
// canvas symbolic), then "ANMF" with a symbolic size - followed by n arbitrary bytes (frame header and
// sub-chunks). Sizes are symbolic, so truncated, overlong and inconsistent chunks are all included.
func VerifH_C05_DemuxANMF(n int) {
	var data []byte
	data = append(data, 'R', 'I', 'F', 'F')
	data = append(data, verifapi.Bytes("riff_size", 4)...)
	data = append(data, 'W', 'E', 'B', 'P', 'V', 'P', '8', 'X', 10, 0, 0, 0)
	data = append(data, verifapi.Bytes("vp8x", 10)...)
	data = append(data, 'A', 'N', 'M', 'F')
	data = append(data, verifapi.Bytes("anmf_size", 4)...)
	data = append(data, verifapi.Bytes("d", n)...)
	data = append([]byte(nil), data...)
	data = data[:len(data):len(data)] // exact capacity, as a file read into memory
	verifapi.Bound("arbitrary bytes after the ANMF header", n)
	vCheckDemux(data, len(data))
}

// VerifH_C05_DemuxSubChunks: deeper into the frame parser - the skeleton of VerifH_C05_DemuxANMF, a
// symbolic 16-byte frame header, a FIRST sub-chunk "ALPH" of a bytes (well formed, padded), then a second
// sub-chunk whose fourcc and size are symbolic, followed by n arbitrary bytes; exact-capacity buffer.
// (RIFF and ANMF sizes are the true ones here: inconsistent outer sizes are VerifH_C05_Demux/ANMF's subject.)
func VerifH_C05_DemuxSubChunks(a, n int) {
	var fr []byte
	fr = append(fr, verifapi.Bytes("frame_header", 16)...)
	fr = append(fr, 'A', 'L', 'P', 'H', byte(a), 0, 0, 0)
	fr = append(fr, verifapi.Bytes("alph", a+a%2)...)
	fr = append(fr, verifapi.Bytes("fourcc2", 4)...)
	fr = append(fr, verifapi.Bytes("size2", 4)...)
	fr = append(fr, verifapi.Bytes("d", n)...)
	var data []byte
	total := 4 + 18 + 8 + len(fr)
	data = append(data, 'R', 'I', 'F', 'F', byte(total), byte(total>>8), 0, 0)
	data = append(data, 'W', 'E', 'B', 'P', 'V', 'P', '8', 'X', 10, 0, 0, 0)
	data = append(data, verifapi.Bytes("vp8x", 10)...)
	data = append(data, 'A', 'N', 'M', 'F', byte(len(fr)), byte(len(fr)>>8), 0, 0)
	data = append(data, fr...)
	data = append([]byte(nil), data...)
	data = data[:len(data):len(data)] // exact capacity, as a file read into memory
	verifapi.Bound("arbitrary bytes after the second sub-chunk header", n)
	vCheckDemux(data, len(data))
}

func vCheckDemux(data []byte, n int) {
	d, err := NewDemuxer(data)
	if err != nil {
		verifapi.Assert(d == nil, "error result carries no demuxer")
		return
	}
	verifapi.Cover(true, "demuxer accepts some input")
	f := d.GetFeatures()
	verifapi.Assert(f.Width >= 0 && f.Height >= 0, "accepted file has non-negative canvas")
	nf := d.NumFrames()
	verifapi.Assert(nf <= maxFrames, "frame cap respected")
	for i := 0; i < nf; i++ {
		fr, err := d.Frame(i)
		verifapi.Assert(err == nil && fr != nil, "frame index in range is served")
		verifapi.Assert(len(fr.Data) <= n && len(fr.AlphaData) <= n, "frame payloads are sub-slices of the input")
	}
	_, err = d.Frame(nf)
	verifapi.Assert(err != nil, "frame index out of range is an error")
	it := d.NewFrameIterator()
	k := 0
	for it.HasNext() {
		_, err := it.Next()
		verifapi.Assert(err == nil, "iterator next")
		k++
	}
	verifapi.Assert(k == nf, "iterator visits every frame once")
	_, _ = d.GetChunk(FourCCICCP)
	_, _ = d.GetChunk(FourCCEXIF)
	_, _ = d.GetChunk(FourCCXMP)
	_ = d.LoopCount()
	_ = d.BackgroundColor()
}
