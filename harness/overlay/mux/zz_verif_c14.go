package mux

import (
	"bytes"

	"github.com/deepteams/webp/internal/container"
	"github.com/deepteams/webp/internal/verifapi"
)

type vBuf struct{ b []byte }

func (v *vBuf) Write(p []byte) (int, error) { v.b = append(v.b, p...); return len(p), nil }

// vFrame builds a frame with a valid VP8 / VP8L header (dims, scale bits, alpha bit and all
// payload bytes nondeterministic). kind 0 = VP8, 1 = VP8L, 2 = ALPH-prefixed VP8.
func vFrame(kind, alen, plen int) (data, alpha, bs []byte, w, h int, vp8lAlpha bool) {
	if kind == 1 {
		bits := verifapi.U32("vp8l_hdr")
		verifapi.Assume(bits>>29 == 0)
		bs = []byte{container.VP8LMagicByte, byte(bits), byte(bits >> 8), byte(bits >> 16), byte(bits >> 24)}
		w = int(bits&0x3fff) + 1
		h = int((bits>>14)&0x3fff) + 1
		vp8lAlpha = (bits>>28)&1 != 0
	} else {
		t0 := verifapi.U8("vp8_tag0") &^ 1
		wd := verifapi.U16("vp8_w")
		hd := verifapi.U16("vp8_h")
		verifapi.Assume(wd&0x3fff != 0 && hd&0x3fff != 0)
		bs = []byte{t0, verifapi.U8("vp8_tag1"), verifapi.U8("vp8_tag2"), 0x9d, 0x01, 0x2a, byte(wd), byte(wd >> 8), byte(hd), byte(hd >> 8)}
		w = int(wd & 0x3fff)
		h = int(hd & 0x3fff)
	}
	bs = append(bs, verifapi.Bytes("payload", plen)...)
	if kind == 2 {
		alpha = verifapi.Bytes("alpha", alen)
		data = []byte{'A', 'L', 'P', 'H', byte(alen), 0, 0, 0}
		data = append(data, alpha...)
		if alen%2 != 0 {
			data = append(data, 0)
		}
		data = append(data, bs...)
	} else {
		data = bs
	}
	return
}

// vWalk is an independent RIFF/WebP walker written from the container specification.
// It returns false if the byte string is not one well-formed RIFF/WebP file.
func vWalk(b []byte) (ok bool, tags []uint32) {
	if len(b) < 12 || string(b[0:4]) != "RIFF" || string(b[8:12]) != "WEBP" {
		return false, nil
	}
	size := int(b[4]) | int(b[5])<<8 | int(b[6])<<16 | int(b[7])<<24
	if size != len(b)-8 || size%2 != 0 {
		return false, nil
	}
	pos := 12
	for pos < len(b) {
		if pos+8 > len(b) {
			return false, nil
		}
		tag := uint32(b[pos]) | uint32(b[pos+1])<<8 | uint32(b[pos+2])<<16 | uint32(b[pos+3])<<24
		n := int(b[pos+4]) | int(b[pos+5])<<8 | int(b[pos+6])<<16 | int(b[pos+7])<<24
		end := pos + 8 + n
		if end > len(b) {
			return false, nil
		}
		if n%2 != 0 {
			if end >= len(b) || b[end] != 0 {
				return false, nil
			}
			end++
		}
		tags = append(tags, tag)
		pos = end
	}
	return pos == len(b), tags
}

// VerifH_C14_RoundTrip: everything the muxer accepts demuxes back to what was put in.
//   nf frames; kinds = base-3 digits (frame i has kind (kinds/3^i)%3); alen/plen payload sizes;
//   meta = bit mask ICC|EXIF<<1|XMP<<2 with blobs of mlen bytes.
func VerifH_C14_RoundTrip(nf, kinds, alen, plen, meta, mlen int) {
	m := NewMuxer()
	type exp struct {
		alpha, bs  []byte
		hasALPH    bool
		w, h       int
		vp8lAlpha  bool
		opts       FrameOptions
	}
	var ex []exp
	k := kinds
	for i := 0; i < nf; i++ {
		kind := k % 3
		k /= 3
		data, alpha, bs, w, h, la := vFrame(kind, alen+i, plen+i)
		o := FrameOptions{Duration: verifapi.Int("dur"), OffsetX: verifapi.Int("offx"), OffsetY: verifapi.Int("offy"),
			BlendMode: BlendMode(verifapi.Int("blend")), DisposeMode: DisposeMode(verifapi.Int("dispose"))}
		verifapi.Assume(o.BlendMode == BlendAlpha || o.BlendMode == BlendNone)
		verifapi.Assume(o.DisposeMode == DisposeNone || o.DisposeMode == DisposeBackground)
		err := m.AddFrame(data, &o)
		verifapi.Assert(err == nil, "AddFrame accepts a non-empty frame")
		ex = append(ex, exp{alpha: alpha, bs: bs, hasALPH: kind == 2, w: w, h: h, vp8lAlpha: la, opts: o})
	}
	loop := verifapi.Int("loop")
	bg := verifapi.U32("bg")
	m.SetLoopCount(loop)
	m.SetBackgroundColor(bg)
	cw, ch := verifapi.Int("canvasw"), verifapi.Int("canvash")
	if verifapi.Bool("setcanvas") {
		m.SetCanvasSize(cw, ch)
	}
	var icc, exif, xmp []byte
	if meta&1 != 0 {
		icc = verifapi.Bytes("icc", mlen)
		verifapi.Assert(m.AddChunk(FourCCICCP, icc) == nil, "AddChunk ICCP")
	}
	if meta&2 != 0 {
		exif = verifapi.Bytes("exif", mlen)
		m.SetEXIF(exif)
	}
	if meta&4 != 0 {
		xmp = verifapi.Bytes("xmp", mlen)
		m.SetXMP(xmp)
	}
	// retro-active setters used by the animation encoder (last write wins)
	if verifapi.Bool("retro") && nf > 0 {
		d2 := verifapi.Int("dur2")
		m.SetFrameDuration(0, d2)
		ex[0].opts.Duration = d2
		m.SetFrameDisposeMode(0, DisposeBackground)
		ex[0].opts.DisposeMode = DisposeBackground
	}

	animated := nf > 1
	for _, e := range ex {
		if clampDuration(e.opts.Duration) > 0 {
			animated = true
		}
	}
	if !animated {
		// a still image carries no per-frame options in the container, and its canvas is the image
		verifapi.Assume(ex[0].opts.OffsetX == 0 && ex[0].opts.OffsetY == 0)
		verifapi.Assume(!(cw > 0 && ch > 0) || (cw == ex[0].w && ch == ex[0].h))
	}
	out := &vBuf{}
	err := m.Assemble(out)
	if err != nil {
		return // rejected with an error: allowed
	}
	verifapi.Cover(true, "muxer accepts")
	ok, tags := vWalk(out.b)
	verifapi.Assert(ok, "assembled file is one well-formed RIFF/WebP (sizes, padding)")
	_ = tags

	d, err := NewDemuxer(out.b)
	verifapi.Assert(err == nil, "demuxer accepts what the muxer wrote")
	verifapi.Assert(d.NumFrames() == nf, "same number of frames")
	f0 := d.GetFeatures()
	// the decoder-side parser enforces the documented canvas-area cap (MaxImageArea): not a container defect
	verifapi.Assume(uint64(f0.Width)*uint64(f0.Height) < container.MaxImageArea)
	p, perr := container.NewParser(out.b)
	verifapi.Assert(perr == nil, "container parser accepts what the muxer wrote")
	verifapi.Assert(len(p.Frames()) == nf, "container parser: same number of frames")
	f := d.GetFeatures()
	pf := p.Features()
	verifapi.Assert(f.Width == pf.Width && f.Height == pf.Height, "both parsers report the same canvas")
	verifapi.Assert(f.HasAnimation == pf.HasAnim, "both parsers agree on the animation flag")
	verifapi.Assert(f.HasAnimation == animated, "animation flag as put in")
	for i := 0; i < nf; i++ {
		fi, err := d.Frame(i)
		verifapi.Assert(err == nil, "frame served")
		e := ex[i]
		verifapi.Assert(bytes.Equal(fi.Data, e.bs), "frame bitstream returned byte for byte")
		if e.hasALPH {
			verifapi.Assert(bytes.Equal(fi.AlphaData, e.alpha), "alpha payload returned byte for byte")
		} else {
			verifapi.Assert(len(fi.AlphaData) == 0, "no alpha payload invented")
		}
		cf := p.Frames()[i]
		verifapi.Assert(bytes.Equal(cf.Payload, e.bs), "container parser: same frame bitstream")
		if e.hasALPH {
			verifapi.Assert(bytes.Equal(cf.AlphaData, e.alpha), "container parser: same alpha payload")
		}
		if animated {
			verifapi.Assert(fi.OffsetX == e.opts.OffsetX&^1 && fi.OffsetY == e.opts.OffsetY&^1, "offsets returned rounded down to even")
			verifapi.Assert(fi.Duration == clampDuration(e.opts.Duration), "duration returned (clamped to 24 bits)")
			verifapi.Assert(fi.BlendMode == e.opts.BlendMode && fi.DisposeMode == e.opts.DisposeMode, "blend and dispose flags returned")
			verifapi.Assert(fi.Width == e.w && fi.Height == e.h, "frame dimensions are those of the bitstream")
			verifapi.Assert(cf.XOffset == fi.OffsetX && cf.YOffset == fi.OffsetY && cf.Duration == fi.Duration, "container parser agrees on frame geometry")
		}
	}
	if animated {
		el := loop
		if el < 0 {
			el = 0
		} else if el > 0xffff {
			el = 0xffff
		}
		verifapi.Assert(d.LoopCount() == el, "loop count returned (clamped to 16 bits)")
		verifapi.Assert(d.BackgroundColor() == bg, "background colour returned")
		verifapi.Assert(pf.LoopCount == el, "container parser: loop count")
	}
	if f.Format == FormatExtended {
		verifapi.Assert(f.HasICC == (icc != nil) && f.HasEXIF == (exif != nil) && f.HasXMP == (xmp != nil), "metadata flags announce exactly the blobs present")
	}
	chk := func(id ChunkID, want []byte, what string) {
		got, err := d.GetChunk(id)
		if want == nil {
			verifapi.Assert(err != nil, what+": absent blob is not found")
		} else {
			verifapi.Assert(err == nil && bytes.Equal(got, want), what+": blob returned byte for byte")
		}
	}
	chk(FourCCICCP, icc, "ICCP")
	chk(FourCCEXIF, exif, "EXIF")
	chk(FourCCXMP, xmp, "XMP")
}
