package webp

import (
	"bytes"
	"image"
	"image/color"
	"math"

	"github.com/deepteams/webp/internal/verifapi"
)

var vQualities = []float32{0, 75, 100, -1, 100.5, float32(math.NaN()), float32(math.Inf(1)), float32(math.Inf(-1)), 33.3}
var vPSNRs = []float32{0, 42.5, -0.5, float32(math.NaN()), float32(math.Inf(1))}

// vSymOptions: every integer and boolean field nondeterministic over its whole type.
func vSymOptions(q, psnr float32) *EncoderOptions {
	return &EncoderOptions{
		Lossless: verifapi.Bool("o_lossless"), Quality: q, Method: verifapi.Int("o_method"), Preset: Preset(verifapi.Int("o_preset")),
		UseSharpYUV: false, Exact: verifapi.Bool("o_exact"), TargetSize: verifapi.Int("o_tsize"), TargetPSNR: psnr,
		Preprocessing: verifapi.Int("o_prep"), SNSStrength: verifapi.Int("o_sns"), FilterStrength: verifapi.Int("o_fstr"),
		FilterSharpness: verifapi.Int("o_fsharp"), FilterType: verifapi.Int("o_ftype"), Partitions: verifapi.Int("o_parts"),
		Segments: verifapi.Int("o_segs"), Pass: verifapi.Int("o_pass"), EmulateJpegSize: verifapi.Bool("o_jpeg"),
		QMin: verifapi.Int("o_qmin"), QMax: verifapi.Int("o_qmax"), AlphaCompression: verifapi.Int("o_acomp"),
		AlphaFiltering: verifapi.Int("o_afilt"), AlphaQuality: verifapi.Int("o_aqual"),
	}
}

// vDocumentedValid restates the documented ranges of EncoderOptions (field comments in encode.go).
func vDocumentedValid(o *EncoderOptions) bool {
	q := float64(o.Quality)
	if math.IsNaN(q) || math.IsInf(q, 0) || q < 0 || q > 100 {
		return false
	}
	p := float64(o.TargetPSNR)
	if math.IsNaN(p) || math.IsInf(p, 0) || p < 0 {
		return false
	}
	qmax := o.QMax
	if qmax < 0 {
		qmax = 100
	}
	return o.Method >= 0 && o.Method <= 6 && o.TargetSize >= 0 && o.Preprocessing >= 0 && o.Preprocessing <= 3 &&
		o.Preset >= PresetDefault && o.Preset <= PresetText &&
		o.SNSStrength <= 100 && o.FilterStrength <= 100 && o.FilterSharpness >= 0 && o.FilterSharpness <= 7 &&
		o.FilterType <= 1 && o.Partitions >= 0 && o.Partitions <= 3 && o.Segments <= 4 && o.Pass <= 10 &&
		o.QMin >= 0 && qmax <= 100 && o.QMin <= qmax &&
		o.AlphaCompression <= 1 && o.AlphaFiltering <= 2 && o.AlphaQuality <= 100
}

// VerifH_C20_Total: for every option value Encode returns an error (exactly when a documented range is
// violated) or writes a well-formed file; it never panics.
func VerifH_C20_Total(qsel, psel int) {
	vGlueInit()
	o := vSymOptions(vQualities[qsel], vPSNRs[psel])
	img := vSymImage(2, 1, 1)
	out := &vBuf{}
	err := Encode(out, img, o)
	valid := vDocumentedValid(o)
	verifapi.Cover(valid, "some option set is accepted")
	verifapi.Cover(!valid, "some option set is rejected")
	verifapi.Assert((err == nil) == valid, "Encode fails exactly when a documented option range is violated")
	if err != nil {
		verifapi.Assert(len(out.b) == 0, "nothing is written when Encode fails on option validation")
		return
	}
	s := vParseStill(out.b)
	verifapi.Assert(s.ok, "accepted options produce one well-formed WebP file")
	cfg, cerr := DecodeConfig(bytes.NewReader(out.b))
	verifapi.Assert(cerr == nil && cfg.Width == 2 && cfg.Height == 1, "file declares the source dimensions")
}

type vDimImage struct{ r image.Rectangle }

func (v vDimImage) ColorModel() color.Model { return color.NRGBAModel }
func (v vDimImage) Bounds() image.Rectangle { return v.r }
func (v vDimImage) At(x, y int) color.Color { return color.NRGBA{} }

// VerifH_C20_Args: nil arguments, empty and over-sized images are errors, never panics.
func VerifH_C20_Args(which int) {
	vGlueInit()
	out := &vBuf{}
	switch which {
	case 0:
		verifapi.Assert(Encode(nil, vSymImage(1, 1, 0), nil) != nil, "nil writer is an error")
	case 1:
		verifapi.Assert(Encode(out, nil, nil) != nil, "nil image is an error")
	case 2:
		x0, y0, x1, y1 := verifapi.Int("x0"), verifapi.Int("y0"), verifapi.Int("x1"), verifapi.Int("y1")
		verifapi.Assume(x0 >= -70000 && x0 <= 70000 && y0 >= -70000 && y0 <= 70000 && x1 >= -70000 && x1 <= 70000 && y1 >= -70000 && y1 <= 70000)
		verifapi.Assume(x1-x0 <= 0 || y1-y0 <= 0 || x1-x0 > 16383 || y1-y0 > 16383)
		img := vDimImage{image.Rectangle{Min: image.Point{X: x0, Y: y0}, Max: image.Point{X: x1, Y: y1}}}
		verifapi.Assert(Encode(out, img, nil) != nil, "empty or larger-than-16383 image is an error")
		lo := DefaultOptions()
		lo.Lossless = true
		verifapi.Assert(Encode(out, img, lo) != nil, "empty or larger-than-16383 image is an error (lossless)")
		verifapi.Assert(len(out.b) == 0, "nothing written")
	}
}

// VerifH_C20_Sentinel: each documented sentinel gives the same codec work and the same bytes as the
// explicit documented default; nil options behave as DefaultOptions().
//   field 0 nil-vs-default, 1 SNS, 2 FilterStrength, 3 FilterType, 4 Segments, 5 Pass, 6 QMax,
//   7 AlphaCompression, 8 AlphaFiltering, 9 AlphaQuality, 10 Segments=0, 11 Pass=0; lossless 0/1; alpha 0/1 (image has transparency).
func VerifH_C20_Sentinel(field, lossless, alpha int) { vSentinel(field, lossless, alpha, 0) }

// VerifH_C20_SentinelRC: the same comparison for lossy encoding with rate control switched on
// (TargetSize in 1..4000 symbolic), where QMin/QMax and Pass are actually consumed by the codec.
func VerifH_C20_SentinelRC(field, alpha int) { vSentinel(field, 0, alpha, 1) }

func vSentinel(field, lossless, alpha, rc int) {
	vGlueInit()
	img := vSymImage(2, 1, alpha)
	if alpha == 1 {
		verifapi.Assume(img.Pix[3] != 255)
	}
	var a, b *EncoderOptions
	if field == 0 {
		a, b = nil, DefaultOptions()
		if lossless == 1 {
			return
		}
	} else {
		// all other fields: arbitrary but identical valid values
		base := vSymOptions(75, 0)
		base.Lossless = lossless == 1
		verifapi.Assume(vDocumentedValid(base))
		if rc == 1 {
			verifapi.Assume(base.TargetSize >= 1 && base.TargetSize <= 4000)
		}
		x, y := *base, *base
		neg := verifapi.Int("sentinel")
		verifapi.Assume(neg < 0)
		switch field {
		case 1:
			x.SNSStrength, y.SNSStrength = neg, 50
		case 2:
			x.FilterStrength, y.FilterStrength = neg, 60
		case 3:
			x.FilterType, y.FilterType = neg, 1
		case 4:
			x.Segments, y.Segments = neg, 4
		case 5:
			x.Pass, y.Pass = neg, 1
		case 6:
			x.QMax, y.QMax = neg, 100
		case 7:
			x.AlphaCompression, y.AlphaCompression = neg, 1
		case 8:
			x.AlphaFiltering, y.AlphaFiltering = neg, 1
		case 9:
			x.AlphaQuality, y.AlphaQuality = neg, 100
		case 10: // "must be 1-4 or 0/-1 for default"
			x.Segments, y.Segments = 0, 4
		case 11: // "must be 1-10 or 0/-1 for default"
			x.Pass, y.Pass = 0, 1
		}
		verifapi.Assume(vDocumentedValid(&x) && vDocumentedValid(&y))
		a, b = &x, &y
	}
	o1, o2 := &vBuf{}, &vBuf{}
	e1 := Encode(o1, img, a)
	c1 := vTakeCalls()
	e2 := Encode(o2, img, b)
	c2 := vTakeCalls()
	verifapi.Assert(e1 == nil && e2 == nil, "both option sets are accepted")
	verifapi.Cover(true, "sentinel comparison reached")
	verifapi.Candidate(!verifapi.Symbolic() || vSameCalls(c1, c2), "sentinel and explicit default ask the codecs for identical work")
	verifapi.Assert(bytes.Equal(o1.b, o2.b), "sentinel and explicit default give byte-identical output")
	verifapi.Assert(vNativeSameOutput(a, b, alpha), "sentinel and explicit default give byte-identical output (48x40 picture, native replay)")
}

// VerifH_C20_LossyOnly: options documented as lossy-only, and EmulateJpegSize, do not change lossless
// output; EmulateJpegSize does not change lossy output either.
func VerifH_C20_LossyOnly(lossless int) {
	vGlueInit()
	img := vSymImage(2, 1, 1)
	x := vSymOptions(75, 0)
	x.Lossless = lossless == 1
	verifapi.Assume(vDocumentedValid(x))
	var y EncoderOptions
	if lossless == 1 {
		y = *DefaultOptions()
		y.Lossless, y.Quality, y.Method, y.Exact = true, x.Quality, x.Method, x.Exact
	} else {
		y = *x
		y.EmulateJpegSize = !x.EmulateJpegSize
	}
	o1, o2 := &vBuf{}, &vBuf{}
	e1 := Encode(o1, img, x)
	c1 := vTakeCalls()
	e2 := Encode(o2, img, &y)
	c2 := vTakeCalls()
	verifapi.Assert(e1 == nil && e2 == nil, "both option sets are accepted")
	verifapi.Cover(true, "comparison reached")
	verifapi.Candidate(!verifapi.Symbolic() || vSameCalls(c1, c2), "options without effect do not change the work the codec is asked to do")
	verifapi.Assert(bytes.Equal(o1.b, o2.b), "options without effect do not change the output bytes")
	verifapi.Assert(vNativeSameOutput(x, &y, 1), "options without effect do not change the output bytes (48x40 picture, native replay)")
}
