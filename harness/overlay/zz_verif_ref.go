package webp

// Reference container model written from the WebP container specification
// (independent of internal/container and mux): used as oracle by the C02/C15/C16/C17 harnesses.

type vChunk struct {
	tag  string
	data []byte
}

type vFile struct {
	ok     bool
	chunks []vChunk
}

// vWalkRIFF checks that b is exactly one RIFF/WEBP file with well-formed chunk framing.
func vWalkRIFF(b []byte) vFile {
	if len(b) < 12 || string(b[0:4]) != "RIFF" || string(b[8:12]) != "WEBP" {
		return vFile{}
	}
	size := int(b[4]) | int(b[5])<<8 | int(b[6])<<16 | int(b[7])<<24
	if size != len(b)-8 || size%2 != 0 {
		return vFile{}
	}
	var f vFile
	pos := 12
	for pos < len(b) {
		if pos+8 > len(b) {
			return vFile{}
		}
		n := int(b[pos+4]) | int(b[pos+5])<<8 | int(b[pos+6])<<16 | int(b[pos+7])<<24
		end := pos + 8 + n
		if n < 0 || end > len(b) {
			return vFile{}
		}
		f.chunks = append(f.chunks, vChunk{tag: string(b[pos : pos+4]), data: b[pos+8 : end]})
		if n%2 != 0 {
			if end >= len(b) || b[end] != 0 {
				return vFile{}
			}
			end++
		}
		pos = end
	}
	f.ok = pos == len(b)
	return f
}

// vStillOrder checks the chunk order of a still image: VP8X, [ICCP], [ALPH], image, [EXIF], [XMP]
// (or a single image chunk for the simple layout) and returns the pieces.
type vStill struct {
	ok                          bool
	extended                    bool
	flags                       byte
	cw, ch                      int
	icc, alph, img, exif, xmp   []byte
	hasICC, hasALPH, hasEXIF, hasXMP bool
	imgTag                      string
}

func vParseStill(b []byte) vStill {
	f := vWalkRIFF(b)
	if !f.ok || len(f.chunks) == 0 {
		return vStill{}
	}
	var s vStill
	cs := f.chunks
	if cs[0].tag != "VP8X" {
		if len(cs) != 1 || (cs[0].tag != "VP8 " && cs[0].tag != "VP8L") {
			return vStill{}
		}
		s.ok, s.img, s.imgTag = true, cs[0].data, cs[0].tag
		return s
	}
	if len(cs[0].data) != 10 {
		return vStill{}
	}
	d := cs[0].data
	if d[1] != 0 || d[2] != 0 || d[3] != 0 || d[0]&0xc1 != 0 {
		return vStill{} // reserved bits must be zero
	}
	s.extended = true
	s.flags = d[0]
	s.cw = 1 + (int(d[4]) | int(d[5])<<8 | int(d[6])<<16)
	s.ch = 1 + (int(d[7]) | int(d[8])<<8 | int(d[9])<<16)
	i := 1
	if i < len(cs) && cs[i].tag == "ICCP" {
		s.icc, s.hasICC = cs[i].data, true
		i++
	}
	if i < len(cs) && cs[i].tag == "ALPH" {
		s.alph, s.hasALPH = cs[i].data, true
		i++
	}
	if i >= len(cs) || (cs[i].tag != "VP8 " && cs[i].tag != "VP8L") {
		return vStill{}
	}
	s.img, s.imgTag = cs[i].data, cs[i].tag
	i++
	if i < len(cs) && cs[i].tag == "EXIF" {
		s.exif, s.hasEXIF = cs[i].data, true
		i++
	}
	if i < len(cs) && cs[i].tag == "XMP " {
		s.xmp, s.hasXMP = cs[i].data, true
		i++
	}
	s.ok = i == len(cs)
	return s
}

type vBuf struct{ b []byte }

func (v *vBuf) Write(p []byte) (int, error) { v.b = append(v.b, p...); return len(p), nil }

// ---- builders (concrete lengths, symbolic contents) ----

func vChunkBytes(tag string, payload []byte) []byte {
	n := len(payload)
	b := []byte{tag[0], tag[1], tag[2], tag[3], byte(n), byte(n >> 8), byte(n >> 16), byte(n >> 24)}
	b = append(b, payload...)
	if n%2 != 0 {
		b = append(b, 0)
	}
	return b
}

func vRIFF(chunks ...[]byte) []byte {
	n := 4
	for _, c := range chunks {
		n += len(c)
	}
	b := []byte{'R', 'I', 'F', 'F', byte(n), byte(n >> 8), byte(n >> 16), byte(n >> 24), 'W', 'E', 'B', 'P'}
	for _, c := range chunks {
		b = append(b, c...)
	}
	return b
}

func vLE24(v int) []byte { return []byte{byte(v), byte(v >> 8), byte(v >> 16)} }

func vVP8X(flags byte, cw, ch int) []byte {
	p := []byte{flags, 0, 0, 0}
	p = append(p, vLE24(cw-1)...)
	p = append(p, vLE24(ch-1)...)
	return vChunkBytes("VP8X", p)
}

func vANIM(bg uint32, loop int) []byte {
	return vChunkBytes("ANIM", []byte{byte(bg), byte(bg >> 8), byte(bg >> 16), byte(bg >> 24), byte(loop), byte(loop >> 8)})
}

func vANMF(x, y, w, h, dur int, flags byte, sub ...[]byte) []byte {
	p := append([]byte{}, vLE24(x/2)...)
	p = append(p, vLE24(y/2)...)
	p = append(p, vLE24(w-1)...)
	p = append(p, vLE24(h-1)...)
	p = append(p, vLE24(dur)...)
	p = append(p, flags)
	for _, s := range sub {
		p = append(p, s...)
	}
	return vChunkBytes("ANMF", p)
}
