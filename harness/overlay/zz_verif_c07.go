package webp

import (
	"bytes"

	"github.com/deepteams/webp/internal/lossy"
	"github.com/deepteams/webp/internal/verifapi"
)

// VerifH_C07_Encode: lossy Encode hands the alpha coder exactly the source alpha plane with the
// documented defaults (quality 100, lossless, fast filter, effort = Method) for every layout, writes
// the payload it returns as the ALPH chunk, and writes no ALPH chunk for an opaque picture.
func VerifH_C07_Encode(w, h, alphaMode, exact int) {
	vGlueInit()
	img := vSymImage(w, h, alphaMode)
	opts := DefaultOptions()
	opts.Exact = exact == 1
	opts.Method = int(verifapi.U8("method") % 7)
	out := &vBuf{}
	verifapi.Assert(Encode(out, img, opts) == nil, "Encode succeeds")
	calls := vTakeCalls()
	s := vParseStill(out.b)
	verifapi.Assert(s.ok && s.imgTag == "VP8 ", "well-formed lossy still")
	anyAlpha := false
	for i := 0; i < w*h; i++ {
		if img.Pix[4*i+3] != 255 {
			anyAlpha = true
		}
	}
	verifapi.Assert(s.hasALPH == anyAlpha, "ALPH chunk exactly when some pixel is not opaque")
	if !verifapi.Symbolic() {
		return
	}
	if !anyAlpha {
		verifapi.Assert(len(calls.alpha) == 0, "no alpha coding for an opaque picture")
		return
	}
	verifapi.Cover(true, "picture with transparency")
	verifapi.Assert(len(calls.alpha) == 1, "alpha coded once")
	a := calls.alpha[0]
	verifapi.Assert(a.W == w && a.H == h, "alpha plane has the picture's size")
	for i := 0; i < w*h; i++ {
		verifapi.Assert(a.Alpha[i] == img.Pix[4*i+3], "alpha coder receives the source alpha plane unchanged (also after the transparent-area clean-up)")
	}
	verifapi.Assert(a.Cfg.Quality == 100, "default alpha quality is 100 (exact)")
	verifapi.Assert(a.Cfg.Method == lossy.AlphaLosslessCompression && a.Cfg.Filter == lossy.AlphaFilterModeFast && a.Cfg.EffortLevel == opts.Method, "default alpha compression/filter/effort")
	verifapi.Assert(bytes.Equal(s.alph[1:], a.Alpha), "ALPH chunk carries the alpha coder's payload")
}
