package webp

import (
	"bytes"

	"github.com/deepteams/webp/internal/container"
	"github.com/deepteams/webp/internal/verifapi"
	"github.com/deepteams/webp/mux"
)

// VerifH_C15_Metadata: metadata is stored byte exact, announced by the flags, readable by chunk id,
// and does not change the embedded bitstream / alpha payload nor what the codecs are asked to encode.
//   mode 0 lossy opaque, 1 lossy with alpha, 2 lossless opaque, 3 lossless with alpha; meta mask ICC|EXIF<<1|XMP<<2, mlen bytes each.
func VerifH_C15_Metadata(mode, w, h, meta, mlen int) {
	vGlueInit()
	am := 0
	if mode == 1 || mode == 3 {
		am = 1
	}
	img := vSymImage(w, h, am)
	if mode == 1 {
		verifapi.Assume(img.Pix[3] != 255) // at least one non-opaque pixel
	}
	base := DefaultOptions()
	base.Lossless = mode >= 2
	with := *base
	if meta&1 != 0 {
		with.ICC = verifapi.Bytes("icc", mlen)
	}
	if meta&2 != 0 {
		with.EXIF = verifapi.Bytes("exif", mlen)
	}
	if meta&4 != 0 {
		with.XMP = verifapi.Bytes("xmp", mlen)
	}
	o1, o2 := &vBuf{}, &vBuf{}
	err1 := Encode(o1, img, &with)
	c1 := vTakeCalls()
	err2 := Encode(o2, img, base)
	c2 := vTakeCalls()
	verifapi.Assert(err1 == nil && err2 == nil, "Encode succeeds")
	verifapi.Candidate(!verifapi.Symbolic() || vSameCalls(c1, c2), "metadata does not change what the codecs are asked to encode")
	s1, s2 := vParseStill(o1.b), vParseStill(o2.b)
	verifapi.Assert(s1.ok && s2.ok, "both outputs are well-formed stills")
	verifapi.Assert(bytes.Equal(s1.img, s2.img) && s1.imgTag == s2.imgTag, "embedded image bitstream identical with and without metadata")
	verifapi.Assert(bytes.Equal(s1.alph, s2.alph) && s1.hasALPH == s2.hasALPH, "alpha payload identical with and without metadata")
	present := func(b []byte) bool { return len(b) > 0 }
	if present(with.ICC) || present(with.EXIF) || present(with.XMP) {
		verifapi.Cover(true, "metadata present")
		verifapi.Assert(s1.extended, "metadata forces the extended layout")
		verifapi.Assert((s1.flags&0x20 != 0) == present(with.ICC) && (s1.flags&0x08 != 0) == present(with.EXIF) && (s1.flags&0x04 != 0) == present(with.XMP), "feature flags announce exactly the blobs present")
		verifapi.Assert(s1.hasICC == present(with.ICC) && s1.hasEXIF == present(with.EXIF) && s1.hasXMP == present(with.XMP), "chunks present exactly for the blobs given")
		verifapi.Assert(!s1.hasICC || bytes.Equal(s1.icc, with.ICC), "ICC stored byte for byte")
		verifapi.Assert(!s1.hasEXIF || bytes.Equal(s1.exif, with.EXIF), "EXIF stored byte for byte")
		verifapi.Assert(!s1.hasXMP || bytes.Equal(s1.xmp, with.XMP), "XMP stored byte for byte")
		// read back by chunk id through the demuxer and the container parser
		d, derr := mux.NewDemuxer(o1.b)
		verifapi.Assert(derr == nil, "demuxer accepts the file")
		rd := func(id mux.ChunkID, want []byte, what string) {
			got, err := d.GetChunk(id)
			if present(want) {
				verifapi.Assert(err == nil && bytes.Equal(got, want), what+" read back by chunk id")
			} else {
				verifapi.Assert(err != nil, what+" absent")
			}
		}
		rd(mux.FourCCICCP, with.ICC, "ICCP")
		rd(mux.FourCCEXIF, with.EXIF, "EXIF")
		rd(mux.FourCCXMP, with.XMP, "XMP")
		f := d.GetFeatures()
		verifapi.Assert(f.HasICC == present(with.ICC) && f.HasEXIF == present(with.EXIF) && f.HasXMP == present(with.XMP), "demuxer feature flags")
		p, perr := container.NewParser(o1.b)
		verifapi.Assert(perr == nil, "container parser accepts the file")
		pf := p.Features()
		verifapi.Assert(pf.HasICCP == present(with.ICC) && pf.HasEXIF == present(with.EXIF) && pf.HasXMP == present(with.XMP), "container parser feature flags")
		verifapi.Assert(pf.Width == w && pf.Height == h, "dimensions unchanged by metadata")
	}
}
