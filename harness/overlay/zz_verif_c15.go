package webp

import (
	"bytes"

	"github.com/deepteams/webp/internal/container"
	"github.com/deepteams/webp/internal/verifapi"
	"github.com/deepteams/webp/mux"
)

// VerifH_C15_Metadata: metadata is stored byte exact, announced by the flags, readable by chunk id,
// and does not change the embedded bitstream / alpha payload nor what the codecs are asked to encode.
//   mode 0 lossy opaque, 1 lossy with alpha, 2 lossless opaque, 3 lossless with alpha; meta mask ICC|EXIF<<1|XMP<<2, mlen bytes each.
func VerifH_C15_Metadata(mode, w, h, meta, mlen int) {
	vGlueInit()
	am := 0
	if mode == 1 || mode == 3 {
		am = 1
	}
	img := vSymImage(w, h, am)
	if mode == 1 {
		verifapi.Assume(img.Pix[3] != 255) // at least one non-opaque pixel
	}
	base := DefaultOptions()
	base.Lossless = mode >= 2
	with := *base
	if meta&1 != 0 {
		with.ICC = verifapi.Bytes("icc", mlen)
	}
	if meta&2 != 0 {
		with.EXIF = verifapi.Bytes("exif", mlen)
	}
	if meta&4 != 0 {
		with.XMP = verifapi.Bytes("xmp", mlen)
	}
	o1, o2 := &vBuf{}, &vBuf{}
	err1 := Encode(o1, img, &with)
	c1 := vTakeCalls()
	err2 := Encode(o2, img, base)
	c2 := vTakeCalls()
	verifapi.Assert(err1 == nil && err2 == nil, "Encode succeeds")
	verifapi.Candidate(!verifapi.Symbolic() || vSameCalls(c1, c2), "metadata does not change what the codecs are asked to encode")
	s1, s2 := vParseStill(o1.b), vParseStill(o2.b)
	verifapi.Assert(s1.ok && s2.ok, "both outputs are well-formed stills")
	verifapi.Assert(bytes.Equal(s1.img, s2.img) && s1.imgTag == s2.imgTag, "embedded image bitstream identical with and without metadata")
	verifapi.Assert(bytes.Equal(s1.alph, s2.alph) && s1.hasALPH == s2.hasALPH, "alpha payload identical with and without metadata")
	present := func(b []byte) bool { return len(b) > 0 }
	if present(with.ICC) || present(with.EXIF) || present(with.XMP) {
		verifapi.Cover(true, "metadata present")
		verifapi.Assert(s1.extended, "metadata forces the extended layout")
		verifapi.Assert((s1.flags&0x20 != 0) == present(with.ICC) && (s1.flags&0x08 != 0) == present(with.EXIF) && (s1.flags&0x04 != 0) == present(with.XMP), "feature flags announce exactly the blobs present")
		verifapi.Assert(s1.hasICC == present(with.ICC) && s1.hasEXIF == present(with.EXIF) && s1.hasXMP == present(with.XMP), "chunks present exactly for the blobs given")
		verifapi.Assert(!s1.hasICC || bytes.Equal(s1.icc, with.ICC), "ICC stored byte for byte")
		verifapi.Assert(!s1.hasEXIF || bytes.Equal(s1.exif, with.EXIF), "EXIF stored byte for byte")
		verifapi.Assert(!s1.hasXMP || bytes.Equal(s1.xmp, with.XMP), "XMP stored byte for byte")
		// read back by chunk id through the demuxer and the container parser
		d, derr := mux.NewDemuxer(o1.b)
		verifapi.Assert(derr == nil, "demuxer accepts the file")
		rd := func(id mux.ChunkID, want []byte, what string) {
			got, err := d.GetChunk(id)
			if present(want) {
				verifapi.Assert(err == nil && bytes.Equal(got, want), what+" read back by chunk id")
			} else {
				verifapi.Assert(err != nil, what+" absent")
			}
		}
		rd(mux.FourCCICCP, with.ICC, "ICCP")
		rd(mux.FourCCEXIF, with.EXIF, "EXIF")
		rd(mux.FourCCXMP, with.XMP, "XMP")
		f := d.GetFeatures()
		verifapi.Assert(f.HasICC == present(with.ICC) && f.HasEXIF == present(with.EXIF) && f.HasXMP == present(with.XMP), "demuxer feature flags")
		p, perr := container.NewParser(o1.b)
		verifapi.Assert(perr == nil, "container parser accepts the file")
		pf := p.Features()
		verifapi.Assert(pf.HasICCP == present(with.ICC) && pf.HasEXIF == present(with.EXIF) && pf.HasXMP == present(with.XMP), "container parser feature flags")
		verifapi.Assert(pf.Width == w && pf.Height == h, "dimensions unchanged by metadata")
	}
}

// VerifH_C15_MetadataRC: the same independence with every non-metadata option symbolic (documented-valid),
// in particular with rate control on (TargetSize 1..4000 when rc==1): the work the codecs are asked to do and
// the embedded bitstream do not depend on the presence or size of metadata. Native replay repeats the
// comparison on the 48x40 picture with the blobs grown to 1500 bytes.
func VerifH_C15_MetadataRC(mode, meta, rc int) {
	vGlueInit()
	am := 0
	if mode == 1 || mode == 3 {
		am = 1
	}
	img := vSymImage(2, 1, am)
	if mode == 1 {
		verifapi.Assume(img.Pix[3] != 255)
	}
	base := vSymOptions(75, 0)
	base.Lossless = mode >= 2
	verifapi.Assume(vDocumentedValid(base))
	if rc == 1 {
		verifapi.Assume(base.TargetSize >= 1 && base.TargetSize <= 4000)
	}
	with := *base
	if meta&1 != 0 {
		with.ICC = verifapi.Bytes("icc", 2)
	}
	if meta&2 != 0 {
		with.EXIF = verifapi.Bytes("exif", 2)
	}
	if meta&4 != 0 {
		with.XMP = verifapi.Bytes("xmp", 2)
	}
	o1, o2 := &vBuf{}, &vBuf{}
	err1 := Encode(o1, img, &with)
	c1 := vTakeCalls()
	err2 := Encode(o2, img, base)
	c2 := vTakeCalls()
	verifapi.Assert(err1 == nil && err2 == nil, "Encode succeeds")
	verifapi.Cover(true, "comparison reached")
	verifapi.Candidate(!verifapi.Symbolic() || vSameCalls(c1, c2), "metadata does not change what the codecs are asked to encode (all options symbolic)")
	s1, s2 := vParseStill(o1.b), vParseStill(o2.b)
	verifapi.Assert(s1.ok && s2.ok, "both outputs are well-formed stills")
	verifapi.Assert(bytes.Equal(s1.img, s2.img) && s1.imgTag == s2.imgTag, "embedded image bitstream identical with and without metadata")
	verifapi.Assert(bytes.Equal(s1.alph, s2.alph) && s1.hasALPH == s2.hasALPH, "alpha payload identical with and without metadata")
	if !verifapi.Symbolic() {
		big := with
		grow := func(b []byte) []byte {
			if len(b) == 0 {
				return b
			}
			g := make([]byte, 1500)
			copy(g, b)
			return g
		}
		big.ICC, big.EXIF, big.XMP = grow(with.ICC), grow(with.EXIF), grow(with.XMP)
		rich := vRichImage(am)
		r1, r2 := &vBuf{}, &vBuf{}
		e1 := Encode(r1, rich, &big)
		e2 := Encode(r2, rich, base)
		t1, t2 := vParseStill(r1.b), vParseStill(r2.b)
		verifapi.Assert(e1 == nil && e2 == nil && t1.ok && t2.ok, "48x40 picture encodes with and without 1500-byte blobs")
		verifapi.Assert(bytes.Equal(t1.img, t2.img) && t1.imgTag == t2.imgTag && bytes.Equal(t1.alph, t2.alph), "48x40 picture: embedded bitstream and alpha identical with and without metadata (native replay)")
	}
}
