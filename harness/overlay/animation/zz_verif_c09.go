package animation

import (
	"image"
	"image/color"

	"github.com/deepteams/webp/internal/verifapi"
)

// vRefBlend: the container specification's non-premultiplied blend in the reference decoder's
// integer form (libwebp anim_decode.c BlendPixelNonPremult), with the exact cases of the formula
// (transparent source keeps dst; opaque source or transparent destination gives src).
func vRefBlend(s, d color.NRGBA) color.NRGBA {
	if s.A == 0 {
		return d
	}
	if s.A == 255 || d.A == 0 {
		return s
	}
	sa, da := uint64(s.A), uint64(d.A)
	df := (da * (256 - sa)) >> 8
	ba := sa + df
	scale := uint64(1<<24) / ba
	ch := func(sc, dc uint8) uint8 {
		v := ((uint64(sc)*sa + uint64(dc)*df) * scale) >> 24
		if v > 255 {
			v = 255
		}
		return uint8(v)
	}
	return color.NRGBA{R: ch(s.R, d.R), G: ch(s.G, d.G), B: ch(s.B, d.B), A: uint8(ba)}
}

// vBlendGeneral is the general case of the blend (0 < src.A < 255, dst.A > 0). In the playback
// harness the engine replaces it by an uninterpreted function (kernel summarised; VerifH_C09_Blend
// is the lemma that ties the real alphaBlendNRGBA to this arithmetic for all pixel pairs).
func vBlendGeneral(s, d color.NRGBA) color.NRGBA { return vRefBlend(s, d) }

// vBlendSummary = vRefBlend with the general case abstracted.
func vBlendSummary(s, d color.NRGBA) color.NRGBA {
	if s.A == 0 {
		return d
	}
	if s.A == 255 || d.A == 0 {
		return s
	}
	return vBlendGeneral(s, d)
}

// VerifH_C09_Blend: alphaBlendNRGBA equals the reference arithmetic for all (src,dst) pairs with
// the given source alpha (the destination alpha is value-split by the engine: the divisor
// (1<<24)/blendA is then a constant in every query).
func VerifH_C09_Blend(sa int) {
	s := color.NRGBA{verifapi.U8("sr"), verifapi.U8("sg"), verifapi.U8("sb"), uint8(sa)}
	d := color.NRGBA{verifapi.U8("dr"), verifapi.U8("dg"), verifapi.U8("db"), verifapi.Split8(verifapi.U8("da"))}
	got := alphaBlendNRGBA(s, d)
	want := vRefBlend(s, d)
	verifapi.Assert(got == want, "alphaBlendNRGBA equals the reference blend for every source/destination pixel")
	verifapi.Assert(vBlendSummary(s, d) == want, "summary form agrees with the reference")
	verifapi.Cover(s.A > 0 && s.A < 255 && d.A > 0, "general blend case reachable")
}

type vFrameSpec struct {
	w, h          int
	ox, oy        int
	blend         BlendMethod
	dispose       DisposeMethod
	px            []color.NRGBA
}

// vRefStep: canvas after showing frame f on canvas c (cw x ch), where prev is the previous frame
// (nil for the first): dispose prev's rectangle if it asked for it, then overwrite or blend.
func vRefStep(c []color.NRGBA, cw, ch int, prev *vFrameSpec, f *vFrameSpec, blend func(s, d color.NRGBA) color.NRGBA) []color.NRGBA {
	out := make([]color.NRGBA, cw*ch)
	for y := 0; y < ch; y++ {
		for x := 0; x < cw; x++ {
			p := c[y*cw+x]
			if prev != nil && prev.dispose == DisposeBackground &&
				x >= prev.ox && x < prev.ox+prev.w && y >= prev.oy && y < prev.oy+prev.h {
				p = color.NRGBA{}
			}
			sx, sy := x-f.ox, y-f.oy
			if sx >= 0 && sx < f.w && sy >= 0 && sy < f.h {
				s := f.px[sy*f.w+sx]
				if f.blend == BlendNone {
					p = s
				} else {
					p = blend(s, p)
				}
			}
			out[y*cw+x] = p
		}
	}
	return out
}

// VerifH_C09_Playback: canvas reconstruction equals the specification for every frame list of the
// given shape.  cw x ch canvas; nf frames; sizes = base-4 digits, frame i has size code (sizes/4^i)%4:
// 0 = 1x1, 1 = 2x1, 2 = 1x2, 3 = 2x2.  Offsets symbolic in -1..cw / -1..ch (inside, partly and fully outside).
func VerifH_C09_Playback(cw, ch, nf, sizes int) {
	anim := &Animation{CanvasWidth: cw, CanvasHeight: ch}
	specs := make([]*vFrameSpec, nf)
	k := sizes
	for i := 0; i < nf; i++ {
		code := k % 4
		k /= 4
		fw, fh := 1+code%2, 1+code/2
		fs := &vFrameSpec{w: fw, h: fh, ox: verifapi.Int("ox"), oy: verifapi.Int("oy"),
			blend: BlendMethod(verifapi.Int("blend")), dispose: DisposeMethod(verifapi.Int("dispose"))}
		verifapi.Assume(fs.ox >= -1 && fs.ox <= cw && fs.oy >= -1 && fs.oy <= ch)
		verifapi.Assume(fs.blend == BlendAlpha || fs.blend == BlendNone)
		verifapi.Assume(fs.dispose == DisposeNone || fs.dispose == DisposeBackground)
		hasAlpha := verifapi.Bool("hasalpha")
		img := image.NewNRGBA(image.Rect(0, 0, fw, fh))
		for j := 0; j < fw*fh; j++ {
			c := color.NRGBA{verifapi.U8("r"), verifapi.U8("g"), verifapi.U8("b"), verifapi.U8("a")}
			if !hasAlpha {
				// decoder contract: a frame whose bitstream signals no alpha decodes to opaque pixels
				verifapi.Assume(c.A == 255)
			}
			fs.px = append(fs.px, c)
			img.SetNRGBA(j%fw, j/fw, c)
		}
		specs[i] = fs
		anim.Frames = append(anim.Frames, Frame{Image: img, OffsetX: fs.ox, OffsetY: fs.oy, Blend: fs.blend, Dispose: fs.dispose,
			HasAlpha: hasAlpha, Duration: 0})
	}
	d, err := NewAnimDecoder(anim)
	verifapi.Assert(err == nil, "decoder created")
	ref := make([]color.NRGBA, cw*ch) // transparent canvas
	var snaps []*image.NRGBA
	var refs [][]color.NRGBA
	for i := 0; i < nf; i++ {
		var prev *vFrameSpec
		if i > 0 {
			prev = specs[i-1]
		}
		ref = vRefStep(ref, cw, ch, prev, specs[i], vBlendSummary)
		verifapi.Assert(d.HasNext(), "HasNext before each frame")
		snap, _, err := d.NextFrame()
		verifapi.Assert(err == nil, "NextFrame succeeds")
		for p := 0; p < cw*ch; p++ {
			verifapi.Assert(snap.NRGBAAt(p%cw, p/cw) == ref[p], "canvas pixel equals the specified compositing result")
		}
		snaps = append(snaps, snap)
		refs = append(refs, ref)
	}
	verifapi.Assert(!d.HasNext(), "no frame left")
	// snapshots already returned are not modified by later calls
	for i := range snaps {
		for p := 0; p < cw*ch; p++ {
			verifapi.Assert(snaps[i].NRGBAAt(p%cw, p/cw) == refs[i][p], "earlier snapshot unchanged by later calls")
		}
	}
	// Reset replays identically
	d.Reset()
	for i := 0; i < nf; i++ {
		snap, _, err := d.NextFrame()
		verifapi.Assert(err == nil, "NextFrame after Reset")
		for p := 0; p < cw*ch; p++ {
			verifapi.Assert(snap.NRGBAAt(p%cw, p/cw) == refs[i][p], "replay after Reset gives the same picture")
		}
	}
	verifapi.Cover(nf > 0, "playback checked")
}
