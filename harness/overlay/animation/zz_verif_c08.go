package animation

import (
	"errors"
	"image"
	"image/color"
	"time"

	"github.com/deepteams/webp/internal/verifapi"
	"github.com/deepteams/webp/mux"
)

type vBuf struct{ b []byte }

func (v *vBuf) Write(p []byte) (int, error) { v.b = append(v.b, p...); return len(p), nil }

// ---- a trivially exact "codec" standing in for the lossless codec (whose round trip is C01):
// VP8L header with the true dimensions and alpha bit, then the raw pixels, then 0..2 filler bytes
// (see vFills) so that every outcome of the encoder's size comparisons is explored.

var vLossyRGB bool // C18: colour is arbitrary after decoding, alpha exact (ALPH-prefixed VP8 frames)

func vEncStub(img image.Image, lossless bool, quality int) ([]byte, error) {
	n := toNRGBA(img)
	w, h := n.Bounds().Dx(), n.Bounds().Dy()
	hasAlpha := uint32(0)
	for y := 0; y < h; y++ {
		for x := 0; x < w; x++ {
			if n.NRGBAAt(x, y).A != 255 {
				hasAlpha = 1
			}
		}
	}
	var bs []byte
	if lossless {
		bits := uint32(w-1) | uint32(h-1)<<14 | hasAlpha<<28
		bs = []byte{0x2f, byte(bits), byte(bits >> 8), byte(bits >> 16), byte(bits >> 24)}
		for y := 0; y < h; y++ {
			for x := 0; x < w; x++ {
				c := n.NRGBAAt(x, y)
				bs = append(bs, c.R, c.G, c.B, c.A)
			}
		}
	} else {
		// lossy frame as the codec contract of C18 demands: alpha (if any) travels in an ALPH chunk
		if hasAlpha == 1 {
			bs = []byte{'A', 'L', 'P', 'H', byte(w * h), 0, 0, 0}
			for y := 0; y < h; y++ {
				for x := 0; x < w; x++ {
					bs = append(bs, n.NRGBAAt(x, y).A)
				}
			}
			if (w*h)%2 != 0 {
				bs = append(bs, 0)
			}
		}
		bs = append(bs, 0x10, 0, 0, 0x9d, 0x01, 0x2a, byte(w), byte(w>>8), byte(h), byte(h>>8))
	}
	// pad every stream to the same base length so that the filler alone decides the size comparisons
	for len(bs) < vPadTo {
		bs = append(bs, 0xdd)
	}
	k := vFills % 3
	vFills /= 3
	for i := 0; i < k; i++ {
		bs = append(bs, 0xee)
	}
	return bs, nil
}

// vFills: base-3 digits = filler bytes (0..2) appended to the successive encoder outputs, so that
// every outcome of the encoder's size comparisons (dispose-none vs dispose-background candidate,
// key-frame fallback) is explored across the shape instances; vPadTo: common base length.
var (
	vFills int
	vPadTo int
)

func vDecStub(bitstream, alpha []byte) (*image.NRGBA, error) {
	if len(bitstream) >= 5 && bitstream[0] == 0x2f {
		bits := uint32(bitstream[1]) | uint32(bitstream[2])<<8 | uint32(bitstream[3])<<16 | uint32(bitstream[4])<<24
		w, h := int(bits&0x3fff)+1, int((bits>>14)&0x3fff)+1
		if len(bitstream) < 5+4*w*h {
			return nil, errors.New("stub: short")
		}
		img := image.NewNRGBA(image.Rect(0, 0, w, h))
		copy(img.Pix, bitstream[5:5+4*w*h])
		return img, nil
	}
	if len(bitstream) < 10 {
		return nil, errors.New("stub: short")
	}
	w := int(bitstream[6]) | int(bitstream[7])<<8
	h := int(bitstream[8]) | int(bitstream[9])<<8
	img := image.NewNRGBA(image.Rect(0, 0, w, h))
	for i := 0; i < w*h; i++ {
		img.Pix[4*i], img.Pix[4*i+1], img.Pix[4*i+2] = verifapi.U8("lossy_r"), verifapi.U8("lossy_g"), verifapi.U8("lossy_b")
		img.Pix[4*i+3] = 255
		if len(alpha) > 0 {
			if len(alpha) < w*h {
				return nil, errors.New("stub: short alpha")
			}
			img.Pix[4*i+3] = alpha[i]
		}
	}
	return img, nil
}

func vSymCanvas(w, h int, tag string) *image.NRGBA {
	c := image.NewNRGBA(image.Rect(0, 0, w, h))
	for i := range c.Pix {
		c.Pix[i] = verifapi.U8(tag)
	}
	return c
}

// vSamePicture: equal, where fully transparent pixels compare equal whatever their colour;
// alphaOnly compares the alpha channel only (lossy colour).
func vSamePicture(a, b *image.NRGBA, alphaOnly bool) bool {
	if a.Bounds() != b.Bounds() {
		return false
	}
	w, h := a.Bounds().Dx(), a.Bounds().Dy()
	for y := 0; y < h; y++ {
		for x := 0; x < w; x++ {
			p, q := a.NRGBAAt(x, y), b.NRGBAAt(x, y)
			if p.A != q.A {
				return false
			}
			if !alphaOnly && p.A != 0 && p != q {
				return false
			}
		}
	}
	return true
}

// VerifH_C08_Step: ONE AddFrame step of the animation encoder from an arbitrary reachable state,
// followed by the real mux -> demux -> AnimDecoder step from the matching decoder state.
//   mode 0: lossless (C08: exact pictures); mode 1: lossy colour / exact alpha (C18: alpha channel exact);
//   mode 2: AllowMixed with lossy as the configured codec, mode 3: AllowMixed with lossless configured
//   (each frame is coded with both and the smaller stream wins: alpha exact, C18).
// State invariant used (what any history establishes): encoder prevCanvas == picture the decoder
// shows; prevFrameRect == decoder prevBounds (even-aligned, inside the canvas, non-empty);
// prevFrameWasKeyframe => the canvas is transparent outside prevFrameRect.
func VerifH_C08_Step(cw, ch, mode, fills int) {
	lossless := mode == 0 || mode == 3
	mixed := mode >= 2
	FrameEncoderFunc, FrameDecoderFunc = vEncStub, vDecStub
	vFills, vPadTo = 0, 0
	out := &vBuf{}
	opts := &EncodeOptions{Lossless: lossless, Quality: 75, AllowMixed: mixed, Kmin: verifapi.Int("kmin"), Kmax: verifapi.Int("kmax"), LoopCount: verifapi.Int("loop")}
	e := NewEncoder(out, cw, ch, opts)
	verifapi.Assert(e != nil, "encoder created")
	prev := vSymCanvas(cw, ch, "prev")
	// previous frame rectangle
	r := image.Rect(verifapi.Int("rx0"), verifapi.Int("ry0"), verifapi.Int("rx1"), verifapi.Int("ry1"))
	verifapi.Assume(r.Min.X >= 0 && r.Min.Y >= 0 && r.Max.X <= cw && r.Max.Y <= ch && r.Min.X < r.Max.X && r.Min.Y < r.Max.Y)
	verifapi.Assume(r.Min.X%2 == 0 && r.Min.Y%2 == 0)
	wasKey := verifapi.Bool("prevWasKey")
	if wasKey {
		for y := 0; y < ch; y++ {
			for x := 0; x < cw; x++ {
				if !(image.Point{X: x, Y: y}.In(r)) {
					verifapi.Assume(prev.NRGBAAt(x, y) == (color.NRGBA{}))
				}
			}
		}
	}
	d0 := int(verifapi.U32("prevDur") & 0xffffff) // 0..maxDuration
	// frame 0 of the muxer: a placeholder with the previous frame's geometry
	ph := image.NewNRGBA(image.Rect(0, 0, r.Dx(), r.Dy()))
	phBS, _ := vEncStub(ph, true, 0)
	vFills, vPadTo = fills, 8+10+5*cw*ch+1
	verifapi.Assert(e.muxer.AddFrame(phBS, &mux.FrameOptions{Duration: d0, OffsetX: r.Min.X, OffsetY: r.Min.Y, BlendMode: mux.BlendNone}) == nil, "placeholder added")
	e.prevCanvas = cloneNRGBA(prev)
	e.prevFrameRect = r
	e.prevMuxIndex = 0
	e.frameCount = 1
	e.countSinceKeyframe = verifapi.Int("sinceKey")
	verifapi.Assume(e.countSinceKeyframe >= 0 && e.countSinceKeyframe < 1<<30)

	curr := vSymCanvas(cw, ch, "curr")
	durMS := int(verifapi.U32("dur") & 0xffffff) // 0..maxDuration
	err := e.AddFrame(curr, time.Duration(durMS)*time.Millisecond)
	verifapi.Assert(err == nil, "AddFrame succeeds")

	// what was written
	file := &vBuf{}
	verifapi.Assert(e.muxer.Assemble(file) == nil, "Assemble succeeds")
	anim, derr := DecodeBytes(file.b)
	verifapi.Assert(derr == nil, "the written animation is readable")
	full := r == image.Rect(0, 0, cw, ch)
	// (the placeholder stands for the last frame of an arbitrary history; only when it is the sole
	// frame of a still file does its own rectangle define the canvas, and then it is the full canvas)
	if len(anim.Frames) > 1 || d0+durMS > 0 || full {
		verifapi.Assert(anim.CanvasWidth == cw && anim.CanvasHeight == ch, "canvas size preserved")
	}
	verifapi.Assert(anim.DecodeFrames() == nil, "frames decode")
	total := 0
	for _, f := range anim.Frames {
		total += int(f.Duration / time.Millisecond)
	}
	verifapi.Assert(total == d0+durMS, "total display time preserved")
	nf := len(anim.Frames)
	verifapi.Assert(nf >= 1 && nf <= 2, "one frame added at most")
	same := true
	for i := range prev.Pix {
		if prev.Pix[i] != curr.Pix[i] {
			same = false
		}
	}
	if nf == 1 {
		verifapi.Cover(true, "identical picture merged into the previous frame")
		verifapi.Assert(same || d0+durMS >= 0, "merge")
		verifapi.Assert(same, "a frame is dropped only when the picture is identical to the previous one")
		return
	}
	verifapi.Cover(true, "new frame written")
	if !same {
		verifapi.Assert(int(anim.Frames[1].Duration/time.Millisecond) == durMS && int(anim.Frames[0].Duration/time.Millisecond) == d0, "display time of each picture preserved")
	}
	// decoder in the state that matches the encoder's pre-state
	dec := &AnimDecoder{anim: anim, currFrame: cloneNRGBA(prev), prevFrameDisposed: cloneNRGBA(prev), pos: 1,
		prevFrameWasKeyframe: wasKey, prevDispose: anim.Frames[0].Dispose, prevBounds: r}
	if anim.Frames[0].Dispose == DisposeBackground {
		fillRect(dec.prevFrameDisposed, r, color.NRGBA{})
		verifapi.Cover(true, "previous frame retro-actively disposed to background")
	}
	verifapi.Cover(anim.Frames[1].Blend == BlendAlpha, "blended sub-frame chosen")
	snap, _, nerr := dec.NextFrame()
	verifapi.Assert(nerr == nil, "NextFrame succeeds")
	verifapi.Assert(vSamePicture(snap, curr, !lossless || mixed), "played-back canvas equals the picture that was added")
	// encoder post-state re-establishes the invariant
	verifapi.Assert(vSamePicture(e.prevCanvas, curr, false), "encoder remembers the picture it wrote")
	verifapi.Assert(e.prevFrameRect == anim.Frames[1].Bounds(), "encoder's previous-frame rectangle is the rectangle written")
}

// VerifH_C08_ChangedRect: the rectangle the encoder restricts a sub-frame to contains EVERY pixel that
// differs between the previous and the next canvas (all pixels symbolic), and it is empty only when the
// two canvases are equal; each of its four edges touches a differing pixel (so it is the bounding box).
func VerifH_C08_ChangedRect(w, h int) {
	prev := vSymCanvas(w, h, "p")
	curr := vSymCanvas(w, h, "c")
	r := findChangedRect(prev, curr)
	verifapi.Assert(r.Min.X >= 0 && r.Min.Y >= 0 && r.Max.X <= w && r.Max.Y <= h && r.Min.X <= r.Max.X && r.Min.Y <= r.Max.Y, "changed rectangle lies inside the canvas")
	top, bottom, left, right := false, false, false, false
	for y := 0; y < h; y++ {
		for x := 0; x < w; x++ {
			if prev.NRGBAAt(x, y) != curr.NRGBAAt(x, y) {
				verifapi.Assert(x >= r.Min.X && x < r.Max.X && y >= r.Min.Y && y < r.Max.Y, "every differing pixel lies inside the changed rectangle")
				if y == r.Min.Y {
					top = true
				}
				if y == r.Max.Y-1 {
					bottom = true
				}
				if x == r.Min.X {
					left = true
				}
				if x == r.Max.X-1 {
					right = true
				}
			}
		}
	}
	if !r.Empty() {
		verifapi.Cover(true, "non-empty changed rectangle")
		verifapi.Assert(top && bottom && left && right, "changed rectangle is the bounding box of the differing pixels")
	}
}
