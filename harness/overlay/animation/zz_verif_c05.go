package animation

import "github.com/deepteams/webp/internal/verifapi"

// VerifH_C05_AnimDecodeBytes: animation.DecodeBytes never panics on any byte string of length n;
// an accepted animation has a positive canvas and frames with sane geometry.
func VerifH_C05_AnimDecodeBytes(n int) {
	data := verifapi.Bytes("d", n)
	verifapi.Bound("input bytes", n)
	a, err := DecodeBytes(data)
	if err != nil {
		return
	}
	verifapi.Cover(true, "some input accepted")
	verifapi.Assert(a != nil, "non-nil animation")
	verifapi.Assert(a.CanvasWidth >= 0 && a.CanvasHeight >= 0, "non-negative canvas")
	_ = a.TotalDuration()
	if a.CanvasWidth > 4 || a.CanvasHeight > 4 {
		return // the canvas allocation itself is capped by maxCanvasArea (checked in VerifH_C05_AnimDecoderCaps)
	}
	d, err := NewAnimDecoder(a)
	if err != nil {
		return
	}
	_ = d.HasNext()
}
