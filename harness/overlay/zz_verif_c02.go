package webp

import (
	"bytes"

	"github.com/deepteams/webp/internal/container"
	"github.com/deepteams/webp/internal/verifapi"
)

// vBitstream returns a bitstream with a valid header of the given kind (0 VP8, 1 VP8L)
// followed by plen nondeterministic bytes.
func vBitstream(kind, plen int) (bs []byte, w, h int, vp8lAlpha bool) {
	if kind == 1 {
		bits := verifapi.U32("vp8l_hdr")
		verifapi.Assume(bits>>29 == 0)
		bs = []byte{container.VP8LMagicByte, byte(bits), byte(bits >> 8), byte(bits >> 16), byte(bits >> 24)}
		w = int(bits&0x3fff) + 1
		h = int((bits>>14)&0x3fff) + 1
		vp8lAlpha = (bits>>28)&1 != 0
	} else {
		wd := verifapi.U16("vp8_w")
		hd := verifapi.U16("vp8_h")
		verifapi.Assume(wd != 0 && hd != 0 && wd < 0x4000 && hd < 0x4000)
		bs = []byte{verifapi.U8("vp8_tag0") &^ 1, verifapi.U8("vp8_tag1"), verifapi.U8("vp8_tag2"), 0x9d, 0x01, 0x2a, byte(wd), byte(wd >> 8), byte(hd), byte(hd >> 8)}
		w, h = int(wd), int(hd)
	}
	bs = append(bs, verifapi.Bytes("payload", plen)...)
	return
}

// VerifH_C02_WriteRIFF: the container written around a bitstream is one conformant WebP file whose
// fields are consistent with the payload; both container parsers of the package accept it.
//   kind 0 VP8 / 1 VP8L; plen payload bytes; alen ALPH bytes (lossy only); meta mask ICC|EXIF<<1|XMP<<2, mlen bytes each.
func VerifH_C02_WriteRIFF(kind, plen, alen, meta, mlen int) {
	if kind == 1 && alen > 0 {
		return // Encode never pairs a VP8L bitstream with an ALPH payload
	}
	bs, w, h, la := vBitstream(kind, plen)
	var alpha []byte
	if alen > 0 {
		alpha = verifapi.Bytes("alpha", alen)
	}
	opts := &EncoderOptions{}
	if meta&1 != 0 {
		opts.ICC = verifapi.Bytes("icc", mlen)
	}
	if meta&2 != 0 {
		opts.EXIF = verifapi.Bytes("exif", mlen)
	}
	if meta&4 != 0 {
		opts.XMP = verifapi.Bytes("xmp", mlen)
	}
	fourcc := uint32(container.FourCCVP8)
	if kind == 1 {
		fourcc = container.FourCCVP8L
	}
	out := &vBuf{}
	err := writeRIFF(out, fourcc, bs, alpha, w, h, opts)
	verifapi.Assert(err == nil, "writeRIFF succeeds for small payloads")
	s := vParseStill(out.b)
	verifapi.Assert(s.ok, "exactly one well-formed RIFF/WebP still with the specified chunk order, sizes and padding")
	verifapi.Assert(bytes.Equal(s.img, bs), "image chunk payload is the bitstream")
	wantTag := "VP8 "
	if kind == 1 {
		wantTag = "VP8L"
	}
	verifapi.Assert(s.imgTag == wantTag, "image chunk tag matches the codec")
	needX := alen > 0 || (mlen > 0 && meta != 0)
	verifapi.Assert(s.extended == needX, "extended layout exactly when alpha data or metadata is present")
	if s.extended {
		verifapi.Cover(true, "extended layout written")
		verifapi.Assert(s.cw == w && s.ch == h, "VP8X canvas equals the image dimensions")
		verifapi.Assert(s.hasALPH == (alen > 0) && bytes.Equal(s.alph, alpha), "ALPH chunk iff alpha data, byte exact")
		wantAlpha := alen > 0 || (kind == 1 && la)
		verifapi.Assert((s.flags&0x10 != 0) == wantAlpha, "VP8X alpha flag iff ALPH chunk or VP8L alpha bit")
		verifapi.Assert((s.flags&0x20 != 0) == s.hasICC && (s.flags&0x08 != 0) == s.hasEXIF && (s.flags&0x04 != 0) == s.hasXMP, "VP8X metadata flags announce exactly the chunks present")
		verifapi.Assert(s.flags&0x02 == 0, "no animation flag on a still")
		if mlen > 0 {
			verifapi.Assert(s.hasICC == (meta&1 != 0) && s.hasEXIF == (meta&2 != 0) && s.hasXMP == (meta&4 != 0), "metadata chunks present as given")
			verifapi.Assert(!s.hasICC || bytes.Equal(s.icc, opts.ICC), "ICC byte exact")
			verifapi.Assert(!s.hasEXIF || bytes.Equal(s.exif, opts.EXIF), "EXIF byte exact")
			verifapi.Assert(!s.hasXMP || bytes.Equal(s.xmp, opts.XMP), "XMP byte exact")
		}
	}
	// accepted by the package's own parser with the same view
	p, perr := container.NewParser(out.b)
	verifapi.Assert(perr == nil, "container.NewParser accepts the file")
	f := p.Features()
	verifapi.Assert(f.Width == w && f.Height == h, "declared dimensions equal the bitstream's")
	fr := p.Frames()
	verifapi.Assert(len(fr) == 1 && bytes.Equal(fr[0].Payload, bs), "parser returns the bitstream")
	verifapi.Assert(bytes.Equal(fr[0].AlphaData, alpha), "parser returns the alpha payload")
	verifapi.Assert(fr[0].IsLossless == (kind == 1), "parser reports the codec")
	cfg, cerr := DecodeConfig(bytes.NewReader(out.b))
	verifapi.Assert(cerr == nil && cfg.Width == w && cfg.Height == h, "DecodeConfig reports the dimensions")
}
