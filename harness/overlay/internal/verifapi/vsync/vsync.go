// Package vsync is a drop-in for the parts of "sync" used by the row-parallel encoder that lets a
// counterexample SCHEDULE found by the SMT model checker be replayed against the real code: every
// visible operation (Lock, Unlock, Cond.Wait's two phases, Broadcast, and the atomic operations of
// package vatomic) of a registered goroutine proceeds only when the schedule names that goroutine;
// when the schedule is exhausted everything runs freely. Unregistered goroutines are never delayed.
package vsync

import (
	"bytes"
	"runtime"
	"strconv"
	"sync"
)

type (
	Pool      = sync.Pool
	WaitGroup = sync.WaitGroup
	Once      = sync.Once
	RWMutex   = sync.RWMutex
	Map       = sync.Map
)

type Locker interface {
	Lock()
	Unlock()
}

type sched struct {
	mu       sync.Mutex
	c        *sync.Cond
	schedule []int
	kinds    []string
	pos      int
	tids     map[uint64]int
	Diverged bool
	blocked  map[int]bool
}

var S = newSched()

func newSched() *sched {
	s := &sched{tids: map[uint64]int{}, blocked: map[int]bool{}}
	s.c = sync.NewCond(&s.mu)
	return s
}

func gid() uint64 {
	var buf [64]byte
	b := buf[:runtime.Stack(buf[:], false)]
	b = bytes.TrimPrefix(b, []byte("goroutine "))
	if i := bytes.IndexByte(b, ' '); i > 0 {
		n, _ := strconv.ParseUint(string(b[:i]), 10, 64)
		return n
	}
	return 0
}

// Reset installs a schedule (thread ids in the order of their visible operations).
func Reset(schedule []int, kinds []string) {
	S.mu.Lock()
	S.schedule, S.pos, S.Diverged = append([]int(nil), schedule...), 0, false
	S.kinds = append([]string(nil), kinds...)
	S.tids = map[uint64]int{}
	S.blocked = map[int]bool{}
	S.mu.Unlock()
}

// Register names the calling goroutine as thread tid of the schedule.
func Register(tid int) {
	S.mu.Lock()
	S.tids[gid()] = tid
	S.mu.Unlock()
}

// Finish tells the scheduler that the calling goroutine has run to completion; if the schedule still
// expects operations from it the real code has left the model's path (divergence).
func Finish() {
	S.mu.Lock()
	defer S.mu.Unlock()
	g := gid()
	tid, ok := S.tids[g]
	if !ok {
		return
	}
	delete(S.tids, g)
	for i := S.pos; i < len(S.schedule); i++ {
		if S.schedule[i] == tid {
			S.Diverged = true
			S.pos = len(S.schedule)
			break
		}
	}
	S.c.Broadcast()
}

// Blocked reports the threads currently unable to perform their next operation, and whether the
// schedule has been consumed.
func Blocked() (map[int]bool, bool, bool) {
	S.mu.Lock()
	defer S.mu.Unlock()
	r := map[int]bool{}
	for k, v := range S.blocked {
		if v {
			r[k] = true
		}
	}
	return r, S.pos >= len(S.schedule), S.Diverged
}

// Step performs try() as one visible operation of the calling goroutine: in scheduled mode when it
// is this thread's turn, afterwards whenever try() succeeds (returns true = operation enabled and done).
func Step(kind string, try func() bool) {
	S.mu.Lock()
	defer S.mu.Unlock()
	tid, registered := S.tids[gid()]
	for {
		if !registered {
			if try() {
				S.c.Broadcast()
				return
			}
		} else if S.pos >= len(S.schedule) {
			if try() {
				S.blocked[tid] = false
				S.c.Broadcast()
				return
			}
			S.blocked[tid] = true
		} else if S.schedule[S.pos] == tid {
			if S.pos < len(S.kinds) && S.kinds[S.pos] != kind {
				// the real code performs a different operation than the extracted skeleton
				S.Diverged = true
				S.pos = len(S.schedule)
				S.c.Broadcast()
				continue
			}
			if try() {
				S.pos++
				S.c.Broadcast()
				return
			}
			// the model said this operation is enabled here but the real code disagrees
			S.Diverged = true
			S.pos = len(S.schedule)
			S.c.Broadcast()
			continue
		}
		S.c.Wait()
	}
}

type Mutex struct{ held bool }

func (m *Mutex) Lock() {
	Step("lock", func() bool {
		if m.held {
			return false
		}
		m.held = true
		return true
	})
}

func (m *Mutex) Unlock() { Step("unlock", func() bool { m.held = false; return true }) }

type Cond struct {
	L   Locker
	gen uint64
}

func NewCond(l Locker) *Cond { return &Cond{L: l} }

func (c *Cond) Wait() {
	m := c.L.(*Mutex)
	var g uint64
	Step("wait", func() bool { m.held = false; g = c.gen; return true }) // atomically unlock and sleep
	Step("reacquire", func() bool { // woken by a broadcast, then re-acquire
		if c.gen == g || m.held {
			return false
		}
		m.held = true
		return true
	})
}

func (c *Cond) Broadcast() { Step("broadcast", func() bool { c.gen++; return true }) }
func (c *Cond) Signal()    { c.Broadcast() }
