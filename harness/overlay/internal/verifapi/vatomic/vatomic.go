// Package vatomic: schedule-controlled stand-in for sync/atomic.Int32 (see package vsync).
package vatomic

import (
	"sync/atomic"

	"github.com/deepteams/webp/internal/verifapi/vsync"
)

type (
	Int64  = atomic.Int64
	Uint32 = atomic.Uint32
	Uint64 = atomic.Uint64
	Bool   = atomic.Bool
	Value  = atomic.Value
)

type Int32 struct{ v int32 }

func (a *Int32) Load() (r int32)  { vsync.Step("load", func() bool { r = a.v; return true }); return }
func (a *Int32) Store(x int32)    { vsync.Step("store", func() bool { a.v = x; return true }) }
func (a *Int32) Add(d int32) (r int32) {
	vsync.Step("add", func() bool { a.v += d; r = a.v; return true })
	return
}
func (a *Int32) Swap(x int32) (r int32) {
	vsync.Step("swap", func() bool { r = a.v; a.v = x; return true })
	return
}
func (a *Int32) CompareAndSwap(o, n int32) (ok bool) {
	vsync.Step("cas", func() bool {
		if a.v == o {
			a.v, ok = n, true
		}
		return true
	})
	return
}
