// Package verifapi is the harness API shared by the symbolic engine (which
// intercepts every function here) and by native replay (which executes these
// bodies, reading nondeterministic values from the file named by VERIF_REPLAY).
// It enters the module through a build overlay only; it is not part of /repo.
package verifapi

import (
	"encoding/json"
	"reflect"
	"runtime"
	"unsafe"
	"fmt"
	"os"
)

var (
	loaded  bool
	values  map[string]uint64
	counter = map[string]int{}
	// Failed is set when an assertion failed during native replay.
	Failed   []string
	Assumed  bool // an assumption was violated: the replay input is invalid
)

type replayFile struct {
	Model map[string]uint64 `json:"model"`
}

func load() {
	if loaded {
		return
	}
	loaded = true
	values = map[string]uint64{}
	p := os.Getenv("VERIF_REPLAY")
	if p == "" {
		return
	}
	b, err := os.ReadFile(p)
	if err != nil {
		panic(err)
	}
	var rf replayFile
	if err := json.Unmarshal(b, &rf); err != nil {
		panic(err)
	}
	values = rf.Model
}

// Reset clears the per-run counters (native replay only).
func Reset() { counter = map[string]int{}; Failed = nil; Assumed = false }

func next(name string) uint64 {
	load()
	k := counter[name]
	counter[name] = k + 1
	return values[fmt.Sprintf("%s#%d", name, k)]
}

func U8(name string) uint8   { return uint8(next(name)) }
func U16(name string) uint16 { return uint16(next(name)) }
func U32(name string) uint32 { return uint32(next(name)) }
func U64(name string) uint64 { return next(name) }
func I8(name string) int8    { return int8(next(name)) }
func I16(name string) int16  { return int16(next(name)) }
func I32(name string) int32  { return int32(next(name)) }
func I64(name string) int64  { return int64(next(name)) }
func Int(name string) int    { return int(int64(next(name))) }
func Bool(name string) bool  { return next(name) != 0 }

// Bytes returns n nondeterministic bytes.
func Bytes(name string, n int) []byte {
	b := make([]byte, n)
	for i := range b {
		b[i] = U8(name)
	}
	return b
}

type assumeFailed struct{}

// Assume restricts the inputs considered.
func Assume(c bool) {
	if !c {
		Assumed = true
		panic(assumeFailed{})
	}
}

// Assert states the property.
func Assert(c bool, msg string) {
	if !c {
		Failed = append(Failed, msg)
		fmt.Println("VERIF-ASSERT-FAILED:", msg)
		panic("VERIF-ASSERT-FAILED: " + msg)
	}
}

// Symbolic reports whether the harness runs under the symbolic engine (false in native replay).
func Symbolic() bool { return false }

// Split8 asks the engine to value-split v (one path per feasible value); identity natively.
func Split8(v uint8) uint8 { return v }

// Candidate states a sufficient condition for the property (e.g. "same arguments reach the codec").
// A solver counterexample to it is only a candidate: it becomes a violation if the native replay,
// where the property itself is asserted on real output, fails. Natively a no-op.
func Candidate(c bool, msg string) {}

// Cover marks a region that must be reachable (vacuity witness).
func Cover(c bool, msg string) {}

// Known marks the remainder of the path as lying inside known-finding region id when c holds.
func Known(id string, c bool) {}

// Bound records a bound for the evidence.
func Bound(name string, n int) {}

// Sample records a sample description for the evidence.
func Sample(s string) {}

// Procs sets the value runtime.GOMAXPROCS(0) returns (under the engine: possibly symbolic; natively: for real).
func Procs(n int) {
	if n >= 1 {
		runtime.GOMAXPROCS(n)
	}
}

// RunReplay runs f, reporting whether an assertion failed or a panic occurred.
func RunReplay(f func()) (violated bool, what string) {
	defer func() {
		if r := recover(); r != nil {
			if _, ok := r.(assumeFailed); ok {
				violated, what = false, "assumption violated by replay input"
				return
			}
			violated, what = true, fmt.Sprint(r)
		}
	}()
	f()
	return false, ""
}

// Thread, Event, CheckHB: happens-before analysis of a wait/signal pipeline (engine intercepts; natively no-ops).
// Thread(id>0) names the analysis thread executing from here on (0 = setup/teardown code, not analysed).
// Event(kind, row, n): kind 0 = wait until progress(row) >= n, kind 1 = publish progress(row) = n.
func Thread(id int)             {}
func Event(kind, row, n int)    {}
func CheckHB(what string)       {}

// SameExcept reports whether *a and *b (pointers to the same struct type) hold the same state:
// all fields except the named top-level ones are compared cell by cell (slices by length and
// contents, pointers by nil-ness and pointee contents).
func SameExcept(a, b interface{}, skip ...string) bool {
	va, vb := reflect.ValueOf(a), reflect.ValueOf(b)
	if va.Kind() != reflect.Ptr || vb.Kind() != reflect.Ptr || va.Type() != vb.Type() {
		panic("verifapi.SameExcept needs two pointers of the same type")
	}
	sk := map[string]bool{}
	for _, s := range skip {
		sk[s] = true
	}
	return sameState(va.Elem(), vb.Elem(), 0, sk)
}

func sameState(a, b reflect.Value, depth int, skip map[string]bool) bool {
	if depth > 8 {
		panic("verifapi.SameExcept: nesting too deep")
	}
	if a.CanAddr() && !a.CanSet() {
		a = reflect.NewAt(a.Type(), unsafe.Pointer(a.UnsafeAddr())).Elem()
	}
	if b.CanAddr() && !b.CanSet() {
		b = reflect.NewAt(b.Type(), unsafe.Pointer(b.UnsafeAddr())).Elem()
	}
	switch a.Kind() {
	case reflect.Struct:
		for i := 0; i < a.NumField(); i++ {
			n := a.Type().Field(i).Name
			if (depth == 0 && skip[n]) || n == "_" {
				continue
			}
			if !sameState(a.Field(i), b.Field(i), depth+1, nil) {
				return false
			}
		}
		return true
	case reflect.Array, reflect.Slice:
		if a.Len() != b.Len() {
			return false
		}
		for i := 0; i < a.Len(); i++ {
			if !sameState(a.Index(i), b.Index(i), depth+1, nil) {
				return false
			}
		}
		return true
	case reflect.Ptr:
		if a.IsNil() != b.IsNil() {
			return false
		}
		if a.IsNil() || a.Pointer() == b.Pointer() {
			return true
		}
		return sameState(a.Elem(), b.Elem(), depth+1, nil)
	case reflect.Bool:
		return a.Bool() == b.Bool()
	case reflect.Int, reflect.Int8, reflect.Int16, reflect.Int32, reflect.Int64:
		return a.Int() == b.Int()
	case reflect.Uint, reflect.Uint8, reflect.Uint16, reflect.Uint32, reflect.Uint64, reflect.Uintptr:
		return a.Uint() == b.Uint()
	case reflect.Float32, reflect.Float64:
		return a.Float() == b.Float()
	case reflect.String:
		return a.String() == b.String()
	}
	panic("verifapi.SameExcept: unsupported field kind " + a.Kind().String())
}

// Havoc makes every integer/boolean cell reachable through ptr (struct fields, array elements,
// elements of non-nil slices; unexported fields included) nondeterministic: the residue of ANY
// earlier use of a pooled object. Natively the values come from the replay file (name "havoc").
func Havoc(ptr interface{}) {
	v := reflect.ValueOf(ptr)
	if v.Kind() != reflect.Ptr || v.IsNil() {
		panic("verifapi.Havoc needs a non-nil pointer")
	}
	havoc(v.Elem(), 0)
}

func havoc(v reflect.Value, depth int) {
	if depth > 6 {
		return
	}
	if !v.CanSet() && v.CanAddr() {
		v = reflect.NewAt(v.Type(), unsafe.Pointer(v.UnsafeAddr())).Elem()
	}
	switch v.Kind() {
	case reflect.Struct:
		for i := 0; i < v.NumField(); i++ {
			havoc(v.Field(i), depth+1)
		}
	case reflect.Array:
		for i := 0; i < v.Len(); i++ {
			havoc(v.Index(i), depth+1)
		}
	case reflect.Slice:
		for i := 0; i < v.Len(); i++ {
			havoc(v.Index(i), depth+1)
		}
	case reflect.Bool:
		v.SetBool(next("havoc") != 0)
	case reflect.Int, reflect.Int8, reflect.Int16, reflect.Int32, reflect.Int64:
		v.SetInt(int64(next("havoc")))
	case reflect.Uint, reflect.Uint8, reflect.Uint16, reflect.Uint32, reflect.Uint64, reflect.Uintptr:
		v.SetUint(next("havoc"))
	}
}
