package lossless

import (
	"image"

	"github.com/deepteams/webp/internal/verifapi"
)

// VerifH_C12_CrossColorSplit: the row-range split of the inverse cross-colour transform gives the
// same pixels as the single-range call for every worker count N (incl. N > rows).
func VerifH_C12_CrossColorSplit(w, h, n int) {
	t := &Transform{Type: CrossColorTransform, Bits: 2, XSize: w, YSize: h}
	tw, th := VP8LSubSampleSize(w, 2), VP8LSubSampleSize(h, 2)
	t.Data = make([]uint32, tw*th)
	for i := range t.Data {
		t.Data[i] = verifapi.U32("tile")
	}
	src := make([]uint32, w*h)
	for i := range src {
		src[i] = verifapi.U32("px")
	}
	a, b := make([]uint32, w*h), make([]uint32, w*h)
	colorSpaceInverseTransform(t, 0, h, src, a)
	colorSpaceInverseTransformParallel(t, 0, h, src, b, n)
	for i := range a {
		verifapi.Assert(a[i] == b[i], "row-split result equals the single-range result")
	}
	verifapi.Cover(true, "compared")
}

// VerifH_C12_ArgbToNRGBA: argbToNRGBA returns the same picture for GOMAXPROCS = N as the
// specified byte layout, for every N (parallel threshold scaled down by a source patch).
func VerifH_C12_ArgbToNRGBA(w, h, n int) {
	verifapi.Procs(n)
	px := make([]uint32, w*h)
	for i := range px {
		px[i] = verifapi.U32("px")
	}
	img := argbToNRGBA(px, w, h)
	verifapi.Assert(img.Bounds() == image.Rect(0, 0, w, h), "bounds")
	for y := 0; y < h; y++ {
		for x := 0; x < w; x++ {
			v := px[y*w+x]
			c := img.NRGBAAt(x, y)
			verifapi.Assert(c.R == uint8(v>>16) && c.G == uint8(v>>8) && c.B == uint8(v) && c.A == uint8(v>>24), "pixel converted, whatever the worker count")
		}
	}
	verifapi.Cover(n > 1, "several workers")
}

var vFillTrace []int

func vStubFillSerial(hc *HashChain, argb []uint32, xsize, size, iterMax int, lowEffort bool, winSize uint32) {
	vFillTrace = append(vFillTrace, 1, xsize, size, iterMax, int(winSize))
}
func vStubFillParallel(hc *HashChain, argb []uint32, xsize, size, iterMax int, winSize uint32, numWorkers int) {
	vFillTrace = append(vFillTrace, 2, xsize, size, iterMax, int(winSize))
}

// VerifH_C12_HashChainDriver: which second pass HashChain.Fill runs (the two are different
// algorithms) does not depend on GOMAXPROCS (threshold scaled down by a source patch).
func VerifH_C12_HashChainDriver(size int) {
	argb := make([]uint32, size)
	for i := range argb {
		argb[i] = uint32(i*7) | 0xff000000
	}
	q := int(verifapi.U8("quality") % 101)
	low := verifapi.Bool("lowEffort")
	n := int(verifapi.U8("procs"))
	verifapi.Assume(n >= 1 && n <= 64)
	run := func(procs int) []int {
		verifapi.Procs(procs)
		hc := NewHashChain(size)
		vFillTrace = nil
		hc.Fill(argb, q, size, 1, low)
		return vFillTrace
	}
	a, b := run(1), run(n)
	verifapi.Assert(len(a) == len(b), "same second pass")
	for i := range a {
		if i < len(b) {
			verifapi.Assert(a[i] == b[i], "same match-search algorithm and parameters for every GOMAXPROCS")
		}
	}
	verifapi.Cover(n > 1, "multi-CPU case compared")
}

// VerifH_C10_HashChainRace: HashChain.Fill's range-split second pass (workers write disjoint ranges of
// OffsetLength and read the copied chain) on concrete pictures: footprints of the worker goroutines
// are pairwise disjoint, so every interleaving gives the same result (threshold scaled by source patch).
func VerifH_C10_HashChainRace(size, pattern, n int) {
	verifapi.Procs(n)
	argb := make([]uint32, size)
	for i := range argb {
		switch pattern {
		case 0:
			argb[i] = 0xff000000 | uint32(i%5)<<8
		case 1:
			argb[i] = 0xff000000 | uint32((i*i)%11)<<16 | uint32(i%3)
		default:
			argb[i] = 0xff112233
		}
	}
	hc := NewHashChain(size)
	hc.Fill(argb, 75, size, 1, false)
	verifapi.Cover(true, "filled")
}

// vStubEntropy stands in for estimateEntropy (floating-point cost model): a fixed cost table that makes
// a different predictor the best one for different tiles, so that a tile that is skipped by the
// worker partition, or visited with the wrong coordinates, changes the selected modes.
func vStubEntropy(argb []uint32, width, height, tx, ty, bits, mode int) float64 {
	return float64((mode*7 + tx*3 + ty*5 + 2) % 13)
}

// VerifH_C12_ResidualSplit: ResidualImage's predictor selection (tile rows partitioned over GOMAXPROCS
// worker goroutines) picks the same mode for every tile, and produces the same residuals, for
// GOMAXPROCS = n as for GOMAXPROCS = 1; pixels symbolic, cost model replaced by vStubEntropy.
func VerifH_C12_ResidualSplit(w, h, bits, n int) {
	px := make([]uint32, w*h)
	for i := range px {
		px[i] = verifapi.U32("px")
	}
	q := 75
	verifapi.Procs(1)
	td1, r1 := ResidualImage(px, w, h, bits, q, nil)
	verifapi.Procs(n)
	td2, r2 := ResidualImage(px, w, h, bits, q, nil)
	verifapi.Assert(len(td1) == len(td2) && len(r1) == len(r2), "same sizes")
	for i := range td1 {
		verifapi.Assert(td1[i] == td2[i], "same predictor chosen for every tile whatever the worker count")
	}
	for i := range r1 {
		verifapi.Assert(r1[i] == r2[i], "same residuals whatever the worker count")
	}
	verifapi.Cover(len(td1) >= 16 && n > 1, "parallel selection with several workers")
}

// VerifH_C10_EncForkJoin: fork/join regions of the lossless ENCODER on concrete pictures with GOMAXPROCS=n
// (race_check: per-goroutine read/write footprints must be disjoint on written cells).
//   which 0: ResidualImage (predictor selection workers)   1: ColorSpaceTransform (cross-colour workers)
func VerifH_C10_EncForkJoin(which, w, h, n int) {
	verifapi.Procs(n)
	px := make([]uint32, w*h)
	s := uint32(w*131 + h)
	for i := range px {
		s = s*1664525 + 1013904223
		px[i] = 0xff000000 | (s>>8)&0xffffff
		if i%3 == 0 && i >= w {
			px[i] = px[i-w]
		}
	}
	switch which {
	case 0:
		td, _ := ResidualImage(px, w, h, 2, 75, nil)
		verifapi.Cover(len(td) >= 16, "parallel predictor selection")
	case 1:
		td := ColorSpaceTransform(px, w, h, 2, 75)
		verifapi.Cover(len(td) >= 16, "parallel cross-colour search")
	}
}

// vStubAddThresh stands in for histogramAddThresh (floating-point entropy): the cost of putting tile b into
// cluster a is |a.binID - b.binID|, accepted when below the running best.
func vStubAddThresh(a, b *Histogram, costThreshold float64) (float64, bool) {
	d := int(a.binID) - int(b.binID)
	if d < 0 {
		d = -d
	}
	if float64(d) < costThreshold {
		return float64(d), true
	}
	return 0, false
}

func vRemapRun(n, clusters, pattern, procs int) []uint16 {
	verifapi.Procs(procs)
	orig := make([]*Histogram, n)
	for i := range orig {
		empty := false
		switch pattern {
		case 0:
			empty = i%3 == 1
		case 1:
			empty = i%(n/8+1) == 0 && i > 0 // includes chunk starts for several worker counts
		case 2:
			empty = i%4 != 3
		}
		if empty {
			continue
		}
		h := NewHistogram(0)
		h.binID = uint16((i*7 + i/5) % clusters)
		h.bitCost = 1e9
		h.Literal[i%256] = 1
		orig[i] = h
	}
	set := &HistoSet{}
	for k := 0; k < clusters; k++ {
		h := NewHistogram(0)
		h.binID = uint16(k)
		set.histos = append(set.histos, h)
	}
	symbols := make([]uint16, n)
	histogramRemap(orig, set, symbols)
	return symbols
}

// VerifH_C12_RemapSplit: histogramRemap (tile -> cluster assignment, tiles split over GOMAXPROCS workers,
// empty tiles inheriting their predecessor's cluster) assigns the same symbols for GOMAXPROCS=procs as
// for GOMAXPROCS=1; concrete tile/cluster configuration, entropy cost replaced by vStubAddThresh.
func VerifH_C12_RemapSplit(n, clusters, pattern, procs int) {
	a := vRemapRun(n, clusters, pattern, 1)
	b := vRemapRun(n, clusters, pattern, procs)
	for i := range a {
		verifapi.Assert(a[i] == b[i], "same cluster for every tile (empty tiles included) whatever the worker count")
	}
	verifapi.Cover(n >= 64 && procs > 1, "parallel assignment with several workers")
}
