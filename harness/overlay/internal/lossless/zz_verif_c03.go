package lossless

import (
	"github.com/deepteams/webp/internal/verifapi"
	ref "github.com/deepteams/webp/internal/verifref/vp8l"
)

// ARGB uint32 <-> the reference decoder's byte-per-channel layout (R,G,B,A).
func vToBytes(px []uint32) []byte {
	b := make([]byte, 4*len(px))
	for i, v := range px {
		b[4*i], b[4*i+1], b[4*i+2], b[4*i+3] = byte(v>>16), byte(v>>8), byte(v), byte(v>>24)
	}
	return b
}

func vFromBytes(b []byte, i int) uint32 {
	return uint32(b[4*i+3])<<24 | uint32(b[4*i])<<16 | uint32(b[4*i+1])<<8 | uint32(b[4*i+2])
}

// VerifH_C03_Transforms: applyInverseTransforms (packed-uint32 libwebp port, in/out aliasing from the
// second inverse on, pooled output buffer) equals the independent byte-per-channel reference decoder
// (x/image/vp8l) for a transform list in stream order.
//   order: base-5 digits, least significant = first transform in the stream; digit 1 predictor,
//   2 cross-colour, 3 subtract-green, 4 colour-indexing (each at most once); pbits: colour-index
//   packing bits 0..3; m1,m2: predictor modes of tile column 0 and 1 (tile bits 2).
func VerifH_C03_Transforms(w, h, order, pbits, m1, m2 int) {
	dec := &Decoder{Width: w, Height: h}
	type rt struct {
		typ   uint32
		width int32
		bits  uint32
		pix   []byte
	}
	var refs []rt
	xs := w
	for o := order; o > 0; o /= 5 {
		typ := TransformType(o%5 - 1)
		t := &dec.transforms[dec.nextTransform]
		dec.nextTransform++
		t.Type, t.XSize, t.YSize = typ, xs, h
		r := rt{typ: uint32(typ), width: int32(xs)}
		switch typ {
		case PredictorTransform, CrossColorTransform:
			t.Bits = 2
			tw, th := VP8LSubSampleSize(xs, 2), VP8LSubSampleSize(h, 2)
			t.Data = make([]uint32, tw*th)
			for i := range t.Data {
				v := verifapi.U32("tile")
				if typ == PredictorTransform {
					m := m1
					if i%tw == 1 {
						m = m2
					}
					v = v&^0x00000f00 | uint32(m)<<8 // the 14 modes the format defines; other tile bits arbitrary
				}
				t.Data[i] = v
			}
			r.bits, r.pix = 2, vToBytes(t.Data)
		case ColorIndexingTransform:
			t.Bits = pbits
			n := 1 << (8 >> pbits)
			t.Data = make([]uint32, n)
			full := make([]uint32, 256)
			for i := range t.Data {
				t.Data[i] = verifapi.U32("palette")
				full[i] = t.Data[i]
			}
			r.bits, r.pix = uint32(pbits), vToBytes(full)
			xs = VP8LSubSampleSize(xs, pbits)
		}
		refs = append(refs, r)
	}
	verifapi.Cover(xs < w, "packed width smaller than the image width")
	verifapi.Cover(dec.nextTransform >= 2, "at least two transforms (aliased in/out)")
	numOrig, numTrans := w*h, xs*h
	// decoded pixels at the transform width; the rest of the (pooled) buffers holds arbitrary residue
	pixels := make([]uint32, numOrig)
	for i := range pixels {
		pixels[i] = verifapi.U32("px")
	}
	in := append([]uint32(nil), pixels[:numTrans]...)
	dec.transformBuf = make([]uint32, numOrig)
	for i := range dec.transformBuf {
		dec.transformBuf[i] = verifapi.U32("residue")
	}
	got := dec.applyInverseTransforms(pixels[:numOrig])

	pix := vToBytes(in)
	for i := len(refs) - 1; i >= 0; i-- {
		pix = ref.VerifInverse(refs[i].typ, refs[i].width, refs[i].bits, refs[i].pix, pix, int32(h))
	}
	verifapi.Assert(len(got) == numOrig && len(pix) == 4*numOrig, "output has width*height pixels")
	for i := 0; i < numOrig; i++ {
		verifapi.Assert(got[i] == vFromBytes(pix, i), "pixel equals the reference decoder's")
	}
}

func vUnpack(v uint32) [4]uint8 { return [4]uint8{byte(v >> 16), byte(v >> 8), byte(v), byte(v >> 24)} }
func vPack(b [4]uint8) uint32   { return uint32(b[3])<<24 | uint32(b[0])<<16 | uint32(b[1])<<8 | uint32(b[2]) }

// VerifH_C03_Kernel: (K) each packed-uint32 pixel kernel of the decoder equals the reference
// decoder's byte-per-channel kernel for ALL argument values.  which: 0 addPixels, 1 average2,
// 2 selectPredictor, 3 clampedAddSubtractFull, 4 clampedAddSubtractHalf.
func VerifH_C03_Kernel(which int) {
	a, b, c := verifapi.U32("a"), verifapi.U32("b"), verifapi.U32("c")
	if which >= 10 {
		// Select with one, two or three free channels (mask selects them); in the remaining channels L, T and TL agree.
		masks := []uint32{0x0000ffff, 0x00ff00ff, 0xff0000ff, 0x00ffff00, 0xff00ff00, 0xffff0000, 0x000000ff, 0x00ffffff, 0xff00ffff, 0xffff00ff, 0xffffff00}
		m := masks[which-10]
		common := verifapi.U32("common") &^ m
		a, b, c = a&m|common, b&m|common, c&m|common
		which = 2
	}
	ua, ub, uc := vUnpack(a), vUnpack(b), vUnpack(c)
	var got uint32
	var want [4]uint8
	switch which {
	case 0:
		got = addPixels(a, b)
		for i := range want {
			want[i] = ua[i] + ub[i]
		}
	case 1:
		got = average2(a, b)
		for i := range want {
			want[i] = ref.VerifAvg2(ua[i], ub[i])
		}
	case 2:
		got = selectPredictor(a, b, c) // (left, top, topLeft)
		want = ref.VerifSelect(ua, ub, uc)
	case 3:
		got = clampedAddSubtractFull(a, b, c)
		for i := range want {
			want[i] = ref.VerifClampAddSubtractFull(ua[i], ub[i], uc[i])
		}
	case 4:
		got = clampedAddSubtractHalf(a, c)
		for i := range want {
			want[i] = ref.VerifClampAddSubtractHalf(ua[i], uc[i])
		}
	}
	verifapi.Assert(got == vPack(want), "packed kernel equals the reference byte kernel for all pixel values")
	verifapi.Cover(true, "kernel compared")
}

// vSpecPredict: the predictor of the WebP lossless specification (section 4.1) over the decoder's
// own pixel kernels (uninterpreted under the engine once VerifH_C03_Kernel has tied them to the
// reference), written pixel by pixel from the specification text.
func vSpecPredict(mode int, l, t, tl, tr uint32) uint32 {
	switch mode {
	case 0:
		return 0xff000000
	case 1:
		return l
	case 2:
		return t
	case 3:
		return tr
	case 4:
		return tl
	case 5:
		return average2(average2(l, tr), t)
	case 6:
		return average2(l, tl)
	case 7:
		return average2(l, t)
	case 8:
		return average2(tl, t)
	case 9:
		return average2(t, tr)
	case 10:
		return average2(average2(l, tl), average2(t, tr))
	case 11:
		return selectPredictor(l, t, tl)
	case 12:
		return clampedAddSubtractFull(l, t, tl)
	case 13:
		return clampedAddSubtractHalf(average2(l, t), tl)
	}
	return 0xff000000
}

// vSpecInversePredictor: out-of-place inverse predictor per the specification.
func vSpecInversePredictor(in []uint32, w, h int, modeAt func(x, y int) int) []uint32 {
	out := make([]uint32, w*h)
	for y := 0; y < h; y++ {
		for x := 0; x < w; x++ {
			var mode int
			switch {
			case x == 0 && y == 0:
				mode = 0
			case y == 0:
				mode = 1
			case x == 0:
				mode = 2
			default:
				mode = modeAt(x, y)
			}
			var l, t, tl, tr uint32
			if x > 0 {
				l = out[y*w+x-1]
			}
			if y > 0 {
				t = out[(y-1)*w+x]
				if x > 0 {
					tl = out[(y-1)*w+x-1]
				}
				if x < w-1 {
					tr = out[(y-1)*w+x+1]
				} else {
					tr = out[y*w] // rightmost column: the leftmost pixel of the current row
				}
			}
			out[y*w+x] = addPixels(in[y*w+x], vSpecPredict(mode, l, t, tl, tr))
		}
	}
	return out
}

// VerifH_C03_TransformsK: as VerifH_C03_Transforms, but (O) with the proved pixel kernels summarised:
// the predictor stage is compared with the specification model over the same (uninterpreted)
// kernels, the other stages with the reference decoder. This is the form that scales to the
// composite predictor modes 5 and 10..13.
func VerifH_C03_TransformsK(w, h, order, pbits, m1, m2 int) {
	dec := &Decoder{Width: w, Height: h}
	type rt struct {
		typ   uint32
		width int
		bits  uint32
		pix   []byte
		data  []uint32
	}
	var refs []rt
	xs := w
	for o := order; o > 0; o /= 5 {
		typ := TransformType(o%5 - 1)
		t := &dec.transforms[dec.nextTransform]
		dec.nextTransform++
		t.Type, t.XSize, t.YSize = typ, xs, h
		r := rt{typ: uint32(typ), width: xs}
		switch typ {
		case PredictorTransform, CrossColorTransform:
			t.Bits = 2
			tw, th := VP8LSubSampleSize(xs, 2), VP8LSubSampleSize(h, 2)
			t.Data = make([]uint32, tw*th)
			for i := range t.Data {
				v := verifapi.U32("tile")
				if typ == PredictorTransform {
					m := m1
					if i%tw == 1 {
						m = m2
					}
					v = v&^0x00000f00 | uint32(m)<<8
				}
				t.Data[i] = v
			}
			r.bits, r.pix, r.data = 2, vToBytes(t.Data), t.Data
		case ColorIndexingTransform:
			t.Bits = pbits
			n := 1 << (8 >> pbits)
			t.Data = make([]uint32, n)
			full := make([]uint32, 256)
			for i := range t.Data {
				t.Data[i] = verifapi.U32("palette")
				full[i] = t.Data[i]
			}
			r.bits, r.pix = uint32(pbits), vToBytes(full)
			xs = VP8LSubSampleSize(xs, pbits)
		}
		refs = append(refs, r)
	}
	verifapi.Cover(xs < w, "packed width smaller than the image width")
	verifapi.Cover(dec.nextTransform >= 2, "at least two transforms (aliased in/out)")
	numOrig, numTrans := w*h, xs*h
	pixels := make([]uint32, numOrig)
	for i := range pixels {
		pixels[i] = verifapi.U32("px")
	}
	cur := append([]uint32(nil), pixels[:numTrans]...)
	dec.transformBuf = make([]uint32, numOrig)
	for i := range dec.transformBuf {
		dec.transformBuf[i] = verifapi.U32("residue")
	}
	got := dec.applyInverseTransforms(pixels[:numOrig])

	for i := len(refs) - 1; i >= 0; i-- {
		r := refs[i]
		if TransformType(r.typ) == PredictorTransform {
			tw := VP8LSubSampleSize(r.width, 2)
			data := r.data
			cur = vSpecInversePredictor(cur, r.width, h, func(x, y int) int { return int(data[(y>>2)*tw+(x>>2)]>>8) & 0xf })
			continue
		}
		pix := ref.VerifInverse(r.typ, int32(r.width), r.bits, r.pix, vToBytes(cur), int32(h))
		cur = make([]uint32, len(pix)/4)
		for j := range cur {
			cur[j] = vFromBytes(pix, j)
		}
	}
	verifapi.Assert(len(got) == numOrig && len(cur) == numOrig, "output has width*height pixels")
	for i := 0; i < numOrig; i++ {
		verifapi.Assert(got[i] == cur[i], "pixel equals the specified value")
	}
}

// VerifH_C03_Stage: ONE inverse transform on arbitrary input, out of place (inplace=0) and in place
// (inplace=1: input and output are the same buffer, as applyInverseTransforms does from the second
// inverse on): result equals the reference. Predictor stage vs the specification model over the
// summarised kernels; other stages vs x/image/vp8l.  typ 0 predictor, 1 cross-colour,
// 2 subtract-green, 3 colour-indexing.
func VerifH_C03_Stage(w, h, typ, pbits, m1, m2, inplace int) {
	t := &Transform{Type: TransformType(typ), XSize: w, YSize: h}
	xs := w
	var rpix []byte
	var rbits uint32
	switch t.Type {
	case PredictorTransform, CrossColorTransform:
		t.Bits = 2
		tw, th := VP8LSubSampleSize(w, 2), VP8LSubSampleSize(h, 2)
		t.Data = make([]uint32, tw*th)
		for i := range t.Data {
			v := verifapi.U32("tile")
			if t.Type == PredictorTransform {
				m := m1
				if i%tw == 1 {
					m = m2
				}
				v = v&^0x00000f00 | uint32(m)<<8
			}
			t.Data[i] = v
		}
		rbits, rpix = 2, vToBytes(t.Data)
	case ColorIndexingTransform:
		t.Bits = pbits
		n := 1 << (8 >> pbits)
		t.Data = make([]uint32, n)
		full := make([]uint32, 256)
		for i := range t.Data {
			t.Data[i] = verifapi.U32("palette")
			full[i] = t.Data[i]
		}
		rbits, rpix = uint32(pbits), vToBytes(full)
		xs = VP8LSubSampleSize(w, pbits)
	}
	verifapi.Cover(inplace == 1, "in-place configuration")
	verifapi.Cover(inplace == 0, "out-of-place configuration")
	numOrig, numTrans := w*h, xs*h
	buf := make([]uint32, numOrig)
	for i := range buf {
		buf[i] = verifapi.U32("px")
	}
	in := append([]uint32(nil), buf[:numTrans]...)
	var out []uint32
	if inplace == 1 {
		out = buf
	} else {
		out = make([]uint32, numOrig)
		for i := range out {
			out[i] = verifapi.U32("residue")
		}
	}
	inverseTransform(t, 0, h, buf, out)
	var want []uint32
	if t.Type == PredictorTransform {
		tw := VP8LSubSampleSize(w, 2)
		want = vSpecInversePredictor(in, w, h, func(x, y int) int { return int(t.Data[(y>>2)*tw+(x>>2)]>>8) & 0xf })
	} else {
		pix := ref.VerifInverse(uint32(typ), int32(w), rbits, rpix, vToBytes(in), int32(h))
		want = make([]uint32, len(pix)/4)
		for j := range want {
			want[j] = vFromBytes(pix, j)
		}
	}
	verifapi.Assert(len(want) == numOrig, "reference output has width*height pixels")
	for i := 0; i < numOrig; i++ {
		verifapi.Assert(out[i] == want[i], "pixel equals the specified value")
	}
}
