package lossless

import "github.com/deepteams/webp/internal/verifapi"

// VerifH_C01_Kernel: (K) the encoder's own copies of the pixel kernels equal the decoder's, and
// subPixels is inverted by addPixels, for ALL argument values.
//   0 add(sub(a,b),b)==a, 1 avg2==average2, 2 selectPred==selectPredictor,
//   3 clampAddSubFull==clampedAddSubtractFull, 4 clampAddSubHalf==clampedAddSubtractHalf,
//   10+m: predictPixel(m, L,T,TR,TL) == specification predictor m over the decoder kernels.
func VerifH_C01_Kernel(which int) {
	a, b, c, d := verifapi.U32("a"), verifapi.U32("b"), verifapi.U32("c"), verifapi.U32("d")
	switch {
	case which == 0:
		verifapi.Assert(addPixels(subPixels(a, b), b) == a, "decoder addPixels inverts encoder subPixels")
	case which == 1:
		verifapi.Assert(avg2(a, b) == average2(a, b), "avg2 == average2")
	case which == 2:
		verifapi.Assert(selectPred(a, b, c) == selectPredictor(a, b, c), "selectPred == selectPredictor")
	case which == 3:
		verifapi.Assert(clampAddSubFull(a, b, c) == clampedAddSubtractFull(a, b, c), "clampAddSubFull == clampedAddSubtractFull")
	case which == 4:
		verifapi.Assert(clampAddSubHalf(a, c) == clampedAddSubtractHalf(a, c), "clampAddSubHalf == clampedAddSubtractHalf")
	default:
		m := which - 10
		// predictPixel(mode, left, top, topRight, topLeft)
		verifapi.Assert(predictPixel(m, a, b, c, d) == vSpecPredict(m, a, b, d, c), "encoder predictor equals the specified predictor")
	}
	verifapi.Cover(true, "kernel compared")
}

// Harness stubs for the encoder's *choice* functions (float cost models): any choice must round-trip.
var vModes [2]int // predictor mode of tile column 0 / 1 (shape parameters)

func vStubResidualImage(argb []uint32, width, height, bits, quality int, residualsBuf []uint32) ([]uint32, []uint32) {
	tw, th := VP8LSubSampleSize(width, bits), VP8LSubSampleSize(height, bits)
	data := make([]uint32, tw*th)
	for i := range data {
		data[i] = uint32(vModes[(i%tw)&1])<<8 | ARGBBlack
	}
	residuals := make([]uint32, len(argb))
	copyImageWithPrediction(argb, width, height, bits, data, residuals)
	return data, residuals
}

func vStubFindBestMultipliers(argb []uint32, width, height, tx, ty, bits, quality int, scratch []uint8) Multipliers {
	return Multipliers{GreenToRed: verifapi.I8("g2r"), GreenToBlue: verifapi.I8("g2b"), RedToBlue: verifapi.I8("r2b")}
}

// VerifH_C01_Composed: the encoder's applyTransforms / applyPaletteTransform (real forward
// transforms, real bookkeeping of widths and transform list; only the float-valued choice of modes
// and multipliers is arbitrary) followed by the decoder's applyInverseTransforms on the encoder's
// output returns the original pixels.
//   combo: bit0 subtract-green, bit1 predictor, bit2 cross-colour, bit3 palette (with ncolors colours);
//   m1,m2 predictor modes of tile columns 0,1.
func VerifH_C01_Composed(w, h, combo, ncolors, m1, m2 int) {
	vModes = [2]int{m1, m2}
	enc := &Encoder{width: w, height: h, currentWidth: w, config: &EncoderConfig{Quality: 75, Method: 4, NearLosslessQuality: 100},
		predictorBits: 2, crossColorBits: 2}
	enc.useSubtractGreen, enc.usePredict, enc.useCrossColor, enc.usePalette = combo&1 != 0, combo&2 != 0, combo&4 != 0, combo&8 != 0
	orig := make([]uint32, w*h)
	if enc.usePalette {
		pal := make([]uint32, ncolors)
		for i := range pal {
			pal[i] = verifapi.U32("palette")
			if i > 0 {
				verifapi.Assume(pal[i-1] < pal[i]) // ColorIndexBuild returns the distinct colours sorted
			}
		}
		enc.palette, enc.paletteSize = pal, ncolors
		for i := range orig {
			k := int(verifapi.U8("index"))
			verifapi.Assume(k < ncolors)
			orig[i] = pal[k]
		}
	} else {
		for i := range orig {
			orig[i] = verifapi.U32("px")
		}
	}
	enc.argb = append([]uint32(nil), orig...)
	enc.applyTransforms()
	verifapi.Cover(enc.currentWidth < w, "pixel packing happened")
	verifapi.Cover(len(enc.transforms) >= 2, "at least two transforms")

	// decoder side: what readTransform reconstructs from the stream, in stream order
	dec := &Decoder{Width: w, Height: h}
	xs := w
	for i := range enc.transforms {
		et := &enc.transforms[i]
		t := &dec.transforms[dec.nextTransform]
		dec.nextTransform++
		t.Type, t.XSize, t.YSize, t.Bits = et.Type, xs, h, et.Bits
		switch et.Type {
		case PredictorTransform, CrossColorTransform:
			verifapi.Assert(et.XSize == xs && et.YSize == h && len(et.Data) == VP8LSubSampleSize(xs, et.Bits)*VP8LSubSampleSize(h, et.Bits), "encoder's tile image matches the width the decoder will use")
			t.Data = et.Data
		case ColorIndexingTransform:
			n := 1 << (8 >> uint(et.Bits))
			verifapi.Assert(len(et.Data) <= n, "palette fits the announced packing")
			t.Data = make([]uint32, n)
			copy(t.Data, et.Data)
			xs = VP8LSubSampleSize(xs, et.Bits)
			verifapi.Assert(xs == enc.currentWidth, "encoder's packed width equals the decoder's")
		}
	}
	verifapi.Assert(len(enc.argb) == xs*h, "encoder output has the transformed size")
	buf := make([]uint32, w*h)
	copy(buf, enc.argb)
	dec.transformBuf = make([]uint32, w*h)
	got := dec.applyInverseTransforms(buf)
	for i := range orig {
		verifapi.Assert(got[i] == orig[i], "decoder recovers the source pixel")
	}
}
