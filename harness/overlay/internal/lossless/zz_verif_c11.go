package lossless

import "github.com/deepteams/webp/internal/verifapi"

// VerifH_C11_CacheSizeScratch: CalculateBestCacheSize gives the same answer with a fresh scratch and
// with a reused scratch whose slabs hold ARBITRARY residue (any earlier encode). The picture and the
// backward references are small and concrete; the dirt is symbolic. The decision goes through
// floating-point entropy estimates, so under the engine a dirty value reaching that code is reported
// as a candidate and the verdict comes from the native replay of this same comparison.
func VerifH_C11_CacheSizeScratch(n, quality int) {
	argb := make([]uint32, n)
	refs := NewBackwardRefs(n)
	for i := range argb {
		argb[i] = 0xff000000 | uint32((i*37)%7)<<16 | uint32((i*11)%5)<<8 | uint32(i%3)
		refs.Add(LiteralPixel(argb[i]))
	}
	want := CalculateBestCacheSize(argb, quality, refs, MaxCacheBits, nil)
	dirty := &BackwardRefsScratch{
		CacheSizeHistoSlab: make([]Histogram, MaxCacheBits+1),
		CacheSizeLitSlab:   make([]uint32, 8192),
		CacheSizeColorSlab: make([]uint32, 4096),
	}
	// arbitrary residue in the count arrays of the reused histograms and in the slabs
	for i := range dirty.CacheSizeHistoSlab {
		h := &dirty.CacheSizeHistoSlab[i]
		h.Red[int(verifapi.U8("where"))] = verifapi.U32("stale_red")
		h.Blue[int(verifapi.U8("where"))] = verifapi.U32("stale_blue")
		h.Alpha[int(verifapi.U8("where"))] = verifapi.U32("stale_alpha")
		h.Distance[int(verifapi.U8("where"))%NumDistanceCodes] = verifapi.U32("stale_dist")
	}
	for i := 0; i < 64; i++ {
		dirty.CacheSizeLitSlab[i*17%8192] = verifapi.U32("stale_lit")
		dirty.CacheSizeColorSlab[i*13%4096] = verifapi.U32("stale_color")
	}
	got := CalculateBestCacheSize(argb, quality, refs, MaxCacheBits, dirty)
	verifapi.Assert(got == want, "same cache size with a fresh and with a dirty reused scratch")
	verifapi.Cover(true, "compared")
}
