package lossless

import "image"


// Harness stubs for *glue* harnesses (engine "redirect"): the three phases of the real
// Encode/EncodeToWriter (analyze, applyTransforms, encodeStream) are replaced; the argument
// tuple is captured and a minimal well-formed VP8L header stream is returned, so that the real
// framing code in Encode/EncodeToWriter (copying, header callback, padding) still runs.

type VerifEncCall struct {
	Argb []uint32
	W, H int
	Cfg  EncoderConfig
}

var VerifEncCalls []VerifEncCall

// VerifFakeEven is chosen (nondeterministically) by the harness: length parity of the fake stream.
var VerifFakeEven bool

func VerifResetCalls() { VerifEncCalls = nil }

func vStubAnalyze(enc *Encoder)         {}
func vStubApplyTransforms(enc *Encoder) {}

func vStubEncodeStream(enc *Encoder) ([]byte, error) {
	VerifEncCalls = append(VerifEncCalls, VerifEncCall{Argb: append([]uint32(nil), enc.argb...), W: enc.width, H: enc.height, Cfg: *enc.config})
	hasAlpha := uint32(0)
	for _, p := range enc.argb {
		if p>>24 != 0xff {
			hasAlpha = 1
		}
	}
	bits := uint32(enc.width-1) | uint32(enc.height-1)<<14 | hasAlpha<<28
	bs := []byte{0x2f, byte(bits), byte(bits >> 8), byte(bits >> 16), byte(bits >> 24)}
	if VerifFakeEven {
		bs = append(bs, 0x55)
	}
	return bs, nil
}

// vStubDecodeVP8L accepts any stream with a valid 5-byte VP8L header and returns a zero image of
// the declared size (C16/C17 glue harnesses).
func vStubDecodeVP8L(data []byte) (*image.NRGBA, error) {
	if len(data) < 5 || data[0] != 0x2f {
		return nil, ErrImageTooLarge
	}
	bits := uint32(data[1]) | uint32(data[2])<<8 | uint32(data[3])<<16 | uint32(data[4])<<24
	if bits>>29 != 0 {
		return nil, ErrImageTooLarge
	}
	return image.NewNRGBA(image.Rect(0, 0, int(bits&0x3fff)+1, int((bits>>14)&0x3fff)+1)), nil
}
