package lossless

import (
	"sync"
	"github.com/deepteams/webp/internal/verifapi"
	ref "github.com/deepteams/webp/internal/verifref/vp8l"
)

// ---- C03: entropy-decoding layer, differential against the reference decoder on STRUCTURED streams ----
//
// A complete VP8L stream is assembled bit by bit; its STRUCTURE (which prefix codes are simple /
// normal, code lengths, group layout, where the backward reference sits) is fixed per shape, while the
// symbol values of the codes, the literal bits and (where stated) the extra bits are symbolic. The real
// DecodeVP8L and the vendored x/image decoder both run on the same symbolic bytes; they must agree
// on acceptance and on every pixel.

type vBitW struct {
	buf  []byte
	nbit uint
}

func (w *vBitW) put(v uint32, n int) {
	for i := 0; i < n; i++ {
		if w.nbit%8 == 0 {
			w.buf = append(w.buf, 0)
		}
		w.buf[len(w.buf)-1] |= byte((v>>uint(i))&1) << (w.nbit % 8)
		w.nbit++
	}
}

// simple code with one 8-bit symbol
func (w *vBitW) simple1(sym uint32) {
	w.put(1, 1)
	w.put(0, 1)
	w.put(1, 1)
	w.put(sym, 8)
}

// simple code with two 8-bit symbols (first gets code 0)
func (w *vBitW) simple2(a, b uint32) {
	w.put(1, 1)
	w.put(1, 1)
	w.put(1, 1)
	w.put(a, 8)
	w.put(b, 8)
}

// normal code over an alphabet of `alphabet` symbols in which only symbol `only` has a non-zero
// length (a zero-bit code): code-length code {18: "1", 1: "0"}, zeros by repeat code 18.
func (w *vBitW) single(only, alphabet int) {
	w.put(0, 1) // normal code
	w.put(0, 4) // 4 code-length code lengths, order 17, 18, 0, 1
	w.put(0, 3)
	w.put(1, 3)
	w.put(0, 3)
	w.put(1, 3)
	w.put(0, 1) // max_symbol not transmitted
	zeros := func(n int) {
		for n > 0 {
			k := n
			if k > 138 {
				k = 138
			}
			if k < 11 {
				// cannot be expressed with the two-symbol code-length code; shapes avoid it
				panic("vBitW.single: zero run shorter than 11")
			}
			w.put(1, 1)
			w.put(uint32(k-11), 7)
			n -= k
		}
	}
	zeros(only)
	w.put(0, 1) // length 1 for `only`
	if alphabet-only-1 > 0 {
		zeros(alphabet - only - 1)
	}
}

// code-length code used by normal(): symbols 0,1,2 have 2-bit codes 00,01,10; 17 and 18 have 110,111.
func (w *vBitW) clSym(sym int) {
	emit := func(code, n int) { // prefix codes are written most significant bit first
		for i := n - 1; i >= 0; i-- {
			w.put(uint32(code>>uint(i))&1, 1)
		}
	}
	switch sym {
	case 0:
		emit(0, 2)
	case 1:
		emit(1, 2)
	case 2:
		emit(2, 2)
	case 17:
		emit(6, 3)
	case 18:
		emit(7, 3)
	}
}

// normal writes a normal (code-length coded) prefix code over `alphabet` symbols in which the symbols
// listed in syms (ascending) have the given lengths (1 or 2) and all others length 0.
func (w *vBitW) normal(alphabet int, syms []int, lens []int) {
	w.put(0, 1) // normal code
	w.put(1, 4) // 5 code-length code lengths, order 17, 18, 0, 1, 2
	w.put(3, 3) // len(17) = 3
	w.put(3, 3) // len(18) = 3
	w.put(2, 3) // len(0)  = 2
	w.put(2, 3) // len(1)  = 2
	w.put(2, 3) // len(2)  = 2
	w.put(0, 1) // max_symbol not transmitted
	zeros := func(n int) {
		for n > 0 {
			switch {
			case n >= 11:
				k := n
				if k > 138 {
					k = 138
				}
				w.clSym(18)
				w.put(uint32(k-11), 7)
				n -= k
			case n >= 3:
				w.clSym(17)
				w.put(uint32(n-3), 3)
				n = 0
			default:
				w.clSym(0)
				n--
			}
		}
	}
	at := 0
	for i, sy := range syms {
		zeros(sy - at)
		w.clSym(lens[i])
		at = sy + 1
	}
	zeros(alphabet - at)
}

func vSameDecode(data []byte, what string) {
	img, err := DecodeVP8L(data)
	pix, rw, rh, rerr := ref.VerifDecodeBytes(data)
	verifapi.Assert((err == nil) == (rerr == nil), what+": accepted by this decoder iff accepted by the reference decoder")
	if err != nil || rerr != nil {
		return
	}
	verifapi.Cover(true, what+": decoded by both")
	verifapi.Assert(img.Rect.Dx() == rw && img.Rect.Dy() == rh, what+": same dimensions")
	for y := 0; y < rh; y++ {
		for x := 0; x < rw; x++ {
			for c := 0; c < 4; c++ {
				verifapi.Assert(img.Pix[y*img.Stride+4*x+c] == pix[(y*rw+x)*4+c], what+": same sample")
			}
		}
	}
}

// VerifH_C03_Entropy(shape, p, q)
//
//	shape 0: 4x8, meta prefix image with two groups (4x4 tiles); group 0 = literals (two green symbols,
//	         single-symbol R/B/A), group 1 = every code has a single symbol and the green one is the
//	         LENGTH PREFIX 256+p (a tile made of one backward reference); q = distance prefix symbol.
//	shape 1: 4x4, one group; green = normal single-symbol code on literal p (all pixels equal), so the
//	         stream has no pixel bits at all.
//	shape 2: 3x2, one group, colour cache of 2^q entries: every pixel is a symbolic choice between a
//	         literal and a cache lookup (slot of the literal xor p).
//	shape 3: 4x3, one group, green = normal code {two literals, length prefix p}, distance symbol q,
//	         24 symbolic stream bits.
func VerifH_C03_Entropy(shape, p, q int) {
	vSameDecode(vStructuredStream(shape, p, q, true), "structured stream")
}

// VerifH_C17_VP8LPrefix: truncation inside the VP8L bitstream is all-or-nothing: for the structured
// streams of VerifH_C03_Entropy (symbolic data bits, no slack bytes after the last needed bit beyond the
// byte boundary) DecodeVP8L of the first k bytes either fails or returns exactly the picture decoded
// from the complete stream. k = cut position counted from the END of the stream (1 = last byte removed).
func VerifH_C17_VP8LPrefix(shape, p, q, k int) {
	data := vStructuredStream(shape, p, q, false)
	if k > len(data) {
		k = len(data)
	}
	// the truncated stream is decoded FIRST, by a fresh decoder: a pooled decoder that has just decoded
	// the complete stream still holds that picture in its pixel buffer, which would mask a partial decode
	losslessDecoderPool = sync.Pool{}
	cut := data[: len(data)-k : len(data)-k]
	img, cerr := DecodeVP8L(cut)
	losslessDecoderPool = sync.Pool{}
	full, err := DecodeVP8L(data)
	verifapi.Assert(err == nil, "the complete stream decodes")
	if cerr != nil {
		verifapi.Cover(true, "truncated stream rejected")
		return
	}
	verifapi.Assert(img.Rect == full.Rect, "a prefix never decodes to a differently sized picture")
	for i := range full.Pix {
		verifapi.Assert(img.Pix[i] == full.Pix[i], "a prefix never decodes to a silently altered picture")
	}
}

func vStructuredStream(shape, p, q int, slack bool) []byte {
	w := &vBitW{}
	// symbol values of the codes are fixed per shape (symbolic symbols would make the prefix-table
	// construction itself symbolic): derived from the shape arguments
	k := uint32(0)
	sym := func(name string) uint32 { k++; return (k*37 + uint32(p)*11 + uint32(q)*5) & 0xff }
	switch shape {
	case 0:
		const W, H = 4, 8
		w.put(0x2f, 8)
		w.put(W-1, 14)
		w.put(H-1, 14)
		w.put(uint32(verifapi.U8("alpha_hint"))&1, 1)
		w.put(0, 3)
		w.put(0, 1) // no transform
		w.put(0, 1) // no colour cache
		w.put(1, 1) // meta prefix codes
		w.put(0, 3) // 4x4 tiles -> entropy image 1x2
		w.put(0, 1) // entropy image: no colour cache
		w.simple2(0, 1)
		w.simple1(0)
		w.simple1(0)
		w.simple1(0)
		w.simple1(0)
		w.put(0, 1) // tile 0 -> group 0
		w.put(1, 1) // tile 1 -> group 1
		// group 0
		g0, g1 := sym("g0"), sym("g1")
		if g0 == g1 {
			g1 ^= 0x80
		}
		w.simple2(g0, g1)
		w.simple1(sym("r"))
		w.simple1(sym("b"))
		w.simple1(sym("a"))
		w.simple1(0)
		// group 1: all single-symbol; green = length prefix 256+p
		w.single(256+p, 280)
		w.simple1(sym("r1"))
		w.simple1(sym("b1"))
		w.simple1(sym("a1"))
		w.simple1(uint32(q)) // distance prefix symbol
		// pixels of tile 0: 16 one-bit literals
		w.put(uint32(verifapi.U16("literal_bits")), 16)
		// tile 1: ONE backward reference; extra bits of the length and distance prefixes
		lenExtra, distExtra := 0, 0
		if p >= 4 {
			lenExtra = (p - 2) >> 1
		}
		if q >= 4 {
			distExtra = (q - 2) >> 1
		}
		// (extra bits fixed: a symbolic copy length/distance makes every later position symbolic)
		w.put(3, lenExtra)
		w.put(7, distExtra)
		// slack so that a decoder that reads on does not hit the end of the stream first
		if slack {
			w.put(uint32(verifapi.U32("tail")), 32)
			w.put(uint32(verifapi.U32("tail")), 32)
		}
	case 2:
		// 4x4, one group, colour cache of 2^q entries; green code = {literal g (code 0), cache index p (code 1)};
		// every pixel is one symbolic bit: literal or cache lookup. R/B/A single-symbol codes.
		const W, H = 3, 2
		w.put(0x2f, 8)
		w.put(W-1, 14)
		w.put(H-1, 14)
		w.put(1, 1)
		w.put(0, 3)
		w.put(0, 1) // no transform
		w.put(1, 1) // colour cache
		w.put(uint32(q), 4)
		w.put(0, 1) // single group
		g, r, b, a := sym("g"), sym("r"), sym("b"), sym("a")
		// cache slot of the literal colour (the format's hash), so that lookups can hit it; p selects
		// the slot looked up relative to it (0 = the literal's own slot)
		slot := int((0x1e35a7bd*(a<<24|r<<16|g<<8|b))>>(32-uint(q))) ^ p
		w.normal(256+24+(1<<uint(q)), []int{int(g), 256 + 24 + slot}, []int{1, 1})
		w.simple1(r)
		w.simple1(b)
		w.simple1(a)
		w.simple1(0)
		w.put(uint32(verifapi.U16("choice_bits")), W*H)
		if slack {
			w.put(uint32(verifapi.U32("tail")), 32)
		}
	case 3:
		// 4x3, one group, green code = {literal g0 (00), literal g1 (01), length prefix p (1x)} with lengths
		// 2,2,1; distance code single symbol q (plane code); pixels: symbolic bits.
		const W, H = 4, 3
		w.put(0x2f, 8)
		w.put(W-1, 14)
		w.put(H-1, 14)
		w.put(1, 1)
		w.put(0, 3)
		w.put(0, 1)
		w.put(0, 1)
		w.put(0, 1)
		g0 := int(sym("g0")) & 0x7f
		g1 := g0 + 1 + int(sym("g1"))&0x3f
		w.normal(280, []int{g0, g1, 256 + p}, []int{2, 2, 1})
		w.simple1(sym("r"))
		w.simple1(sym("b"))
		w.simple1(sym("a"))
		w.simple1(uint32(q))
		w.put(uint32(verifapi.U32("pixel_bits")), 24)
		if slack {
			w.put(uint32(verifapi.U32("tail")), 32)
		}
	case 1:
		const W, H = 4, 4
		w.put(0x2f, 8)
		w.put(W-1, 14)
		w.put(H-1, 14)
		w.put(1, 1)
		w.put(0, 3)
		w.put(0, 1)
		w.put(0, 1)
		w.put(0, 1) // single group
		w.single(p, 280)
		w.simple1(sym("r"))
		w.simple1(sym("b"))
		w.simple1(sym("a"))
		w.simple1(0)
		if slack {
			w.put(uint32(verifapi.U32("tail")), 32)
		}
	}
	return w.buf
}
