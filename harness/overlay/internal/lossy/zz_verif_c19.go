package lossy

import (
	"image"
	"image/color"
	"sync"

	"github.com/deepteams/webp/internal/verifapi"
)

// vShifted presents the pixels of an origin NRGBA through the generic image.Image interface with its
// bounds moved to (ox, oy): the same picture as far as the image API is concerned.
type vShifted struct {
	img    *image.NRGBA
	ox, oy int
}

func (s vShifted) ColorModel() color.Model { return color.NRGBAModel }
func (s vShifted) Bounds() image.Rectangle {
	b := s.img.Bounds()
	return image.Rect(b.Min.X+s.ox, b.Min.Y+s.oy, b.Max.X+s.ox, b.Max.Y+s.oy)
}
func (s vShifted) At(x, y int) color.Color { return s.img.NRGBAAt(x-s.ox, y-s.oy) }

// VerifH_C19_ImportLayout: lossy.NewEncoder's colour conversion (importImage) produces the same Y, U and V
// planes - padding included - for the same picture stored differently:
//   kind 0: *image.NRGBA at the origin vs a sub-image view at (ox, oy) of a larger buffer whose other pixels
//           differ (parallel fast path);
//   kind 1: generic image.Image at the origin vs the same at (ox, oy) (serial path; negative origins too);
//   kind 2: as kind 0 with dithering enabled (serial path on *image.NRGBA).
// Concrete picture with colour variation in both directions; odd size so that edge replication runs.
func VerifH_C19_ImportLayout(kind, ox, oy int) {
	const w, h = 21, 19
	base := vC11Picture(w, h, 5)
	for i := 0; i < w*h; i++ {
		base.Pix[4*i] ^= byte(i / w * 9)
		base.Pix[4*i+2] ^= byte(i % w * 5)
	}
	cfg := DefaultConfig(70)
	if kind == 2 {
		cfg.Preprocessing |= 2
		cfg.Dithering = 0.5
	}
	var a, b image.Image
	switch kind {
	case 0, 2:
		big := image.NewNRGBA(image.Rect(0, 0, w+ox+3, h+oy+2))
		for i := range big.Pix {
			big.Pix[i] = byte(i*31 + 7)
		}
		for y := 0; y < h; y++ {
			copy(big.Pix[(y+oy)*big.Stride+4*ox:(y+oy)*big.Stride+4*(ox+w)], base.Pix[y*base.Stride:y*base.Stride+4*w])
		}
		a, b = base, big.SubImage(image.Rect(ox, oy, ox+w, oy+h))
	case 1:
		a, b = vShifted{base, 0, 0}, vShifted{base, ox, oy}
	}
	encoderPool = sync.Pool{}
	ea := NewEncoder(a, cfg)
	encoderPool = sync.Pool{}
	eb := NewEncoder(b, cfg)
	verifapi.Assert(ea != eb && ea.width == eb.width && ea.height == eb.height, "two encoders, same picture size")
	same := func(p, q []byte) bool {
		if len(p) != len(q) {
			return false
		}
		for i := range p {
			if p[i] != q[i] {
				return false
			}
		}
		return true
	}
	verifapi.Assert(same(ea.yPlane, eb.yPlane), "same luma plane whatever the origin / stride of the source")
	verifapi.Assert(same(ea.uPlane, eb.uPlane) && same(ea.vPlane, eb.vPlane), "same chroma planes whatever the origin / stride of the source")
	verifapi.Cover(true, "layouts compared")
}
