package lossy

import (
	"image"
	"image/color"
)

// Harness stubs that replace the lossy codec's entry points in *glue* harnesses (engine
// "redirect"): they capture the argument tuple and return a small well-formed fake stream.
// Soundness argument: the real entry points are deterministic functions of these arguments
// (that determinism itself is C10/C11/C12), so equal captured tuples imply equal output bytes.

type VerifEncCall struct {
	Cfg  EncodeConfig
	W, H int
	Pix  []color.NRGBA // the picture as seen through image.Image.At, row major
	YUV  bool
}

type VerifAlphaCall struct {
	Alpha []byte
	W, H  int
	Cfg   AlphaEncoderConfig
}

var (
	VerifFakeOdd    bool // chosen (nondeterministically) by the harness: length parity of the fake streams
	VerifEncCalls   []VerifEncCall
	VerifAlphaCalls []VerifAlphaCall
)

func VerifResetCalls() { VerifEncCalls = nil; VerifAlphaCalls = nil }

func vCapturePix(img image.Image) (pix []color.NRGBA, w, h int) {
	b := img.Bounds()
	w, h = b.Dx(), b.Dy()
	for y := 0; y < h; y++ {
		for x := 0; x < w; x++ {
			pix = append(pix, color.NRGBAModel.Convert(img.At(b.Min.X+x, b.Min.Y+y)).(color.NRGBA))
		}
	}
	return
}

func vStubNewEncoder(img image.Image, cfg EncodeConfig) *VP8Encoder {
	pix, w, h := vCapturePix(img)
	VerifEncCalls = append(VerifEncCalls, VerifEncCall{Cfg: cfg, W: w, H: h, Pix: pix})
	return &VP8Encoder{width: w, height: h}
}

func vStubNewEncoderFromYUV(yuv *image.YCbCr, w, h int, cfg EncodeConfig) *VP8Encoder {
	VerifEncCalls = append(VerifEncCalls, VerifEncCall{Cfg: cfg, W: w, H: h, YUV: true})
	return &VP8Encoder{width: w, height: h}
}

func vStubReleaseEncoder(enc *VP8Encoder) {}

// vStubEncodeFrame returns a 10..11-byte VP8 key-frame header with the encoder's dimensions.
func vStubEncodeFrame(enc *VP8Encoder) ([]byte, error) {
	bs := []byte{0x10, 0, 0, 0x9d, 0x01, 0x2a, byte(enc.width), byte(enc.width >> 8 & 0x3f), byte(enc.height), byte(enc.height >> 8 & 0x3f)}
	if VerifFakeOdd {
		bs = append(bs, 0x55)
	}
	return bs, nil
}

// vStubEncodeAlpha captures the alpha plane and returns a raw-method ALPH payload.
func vStubEncodeAlpha(alpha []byte, width, height int, cfg *AlphaEncoderConfig) ([]byte, error) {
	VerifAlphaCalls = append(VerifAlphaCalls, VerifAlphaCall{Alpha: append([]byte(nil), alpha...), W: width, H: height, Cfg: *cfg})
	out := append([]byte{0}, alpha...)
	return out, nil
}

// ---- decode-side stubs (C16/C17 glue harnesses): accept any frame with a valid 10-byte key-frame
// header and return zero planes of the declared size; the real header parse is C04/C05's subject.
func vStubDecodeFrame(data []byte) (dec *Decoder, width, height int, y []byte, yStride int, u, v []byte, uvStride int, err error) {
	if len(data) < 10 || data[0]&1 != 0 || data[3] != 0x9d || data[4] != 0x01 || data[5] != 0x2a {
		err = ErrVerifStub
		return
	}
	width = (int(data[6]) | int(data[7])<<8) & 0x3fff
	height = (int(data[8]) | int(data[9])<<8) & 0x3fff
	if width == 0 || height == 0 {
		err = ErrVerifStub
		return
	}
	yStride, uvStride = width, (width+1)/2
	y = make([]byte, yStride*height)
	u = make([]byte, uvStride*((height+1)/2))
	v = make([]byte, uvStride*((height+1)/2))
	return
}

var ErrVerifStub = errVerifStub{}

type errVerifStub struct{}

func (errVerifStub) Error() string { return "verif stub: invalid frame" }

func vStubDecodeAlpha(data []byte, width, height int) ([]byte, error) {
	if len(data) < 1 || width <= 0 || height <= 0 {
		return nil, ErrVerifStub
	}
	return make([]byte, width*height), nil
}
