package lossy

import (
	"bytes"
	"image"
	"image/color"
	"sync"

	"github.com/deepteams/webp/internal/verifapi"
)

// vSampleVP8 is a real 20x18 key frame (2x2 macroblocks, mixed i16/i4 modes, loop filter on)
// of random noise written once by this package's own encoder at quality 50 (its first macroblock uses 4x4 prediction, so the left-mode context matters); it is concrete input, the pooled
// decoder's state is what is symbolic in the harness below.
var vSampleVP8 = []byte{48,9,0,157,1,42,20,0,18,0,62,209,92,164,78,144,112,176,244,5,84,128,13,4,182,0,78,153,65,140,26,224,60,191,250,0,115,189,127,128,212,73,244,0,233,58,255,74,143,3,162,167,57,255,74,239,240,253,114,244,0,10,93,43,147,17,23,7,112,178,189,70,255,152,81,154,75,5,89,102,153,240,0,253,113,7,210,171,25,185,66,240,198,128,63,218,91,172,114,225,85,203,152,27,11,102,185,46,181,97,38,236,152,63,110,99,54,22,133,216,229,237,222,32,76,135,192,196,182,65,3,130,126,153,138,24,40,128,113,98,81,222,88,95,4,240,137,202,56,162,207,210,89,191,157,17,115,55,156,185,175,143,140,15,174,66,15,144,168,163,225,255,92,161,98,197,223,152,253,37,107,67,189,163,254,140,214,203,86,221,62,87,132,238,161,7,47,239,240,45,164,199,20,143,220,231,183,60,57,202,63,119,250,225,108,164,98,209,85,136,132,88,160,44,49,179,116,35,135,248,216,169,94,246,65,64,137,177,79,49,183,142,204,103,114,185,247,186,81,86,183,149,46,128,164,118,135,253,206,243,58,246,150,45,36,232,155,155,197,152,34,28,84,151,104,109,10,242,83,213,182,108,83,241,76,253,101,196,123,254,75,167,48,109,56,125,31,23,193,104,191,254,211,47,178,120,181,248,58,4,158,100,38,79,45,110,113,165,55,186,42,167,228,79,146,192,13,148,155,239,131,114,221,38,164,189,124,25,128,115,208,220,249,71,25,176,7,61,13,207,148,113,157,42,142,224,116,234,29,218,14,41,27,160,69,250,245,5,194,234,90,203,12,238,209,122,150,158,208,192,0,0,}

func vCopyPlanes(w, h int, y []byte, ys int, u, v []byte, uvs int) []byte {
	var out []byte
	for r := 0; r < h; r++ {
		out = append(out, y[r*ys:r*ys+w]...)
	}
	for r := 0; r < (h+1)/2; r++ {
		out = append(out, u[r*uvs:r*uvs+(w+1)/2]...)
		out = append(out, v[r*uvs:r*uvs+(w+1)/2]...)
	}
	return out
}

// VerifH_C11_LossyDecoderReuse: decoding a frame with a pooled Decoder whose every integer/boolean
// field and every element of its retained buffers is ARBITRARY (the residue of any earlier call
// history, including aborted decodes) gives exactly the samples a fresh decoder gives.
//   bufs: 0 = retained buffers absent (nil), 1 = present with arbitrary contents and enough capacity to be reused.
func VerifH_C11_LossyDecoderReuse(bufs int) {
	lossyDecoderPool = sync.Pool{}
	d1, w1, h1, y1, ys1, u1, v1, uvs1, err1 := DecodeFrame(vSampleVP8)
	verifapi.Assert(err1 == nil && w1 == 20 && h1 == 18, "sample frame decodes with a fresh decoder")
	want := vCopyPlanes(w1, h1, y1, ys1, u1, v1, uvs1)
	_ = d1 // not released: the pool must only hold the dirty object below

	dirty := &Decoder{}
	if bufs == 1 {
		dirty.yuvT = make([]TopSamples, 2)
		dirty.mbInfo = make([]MB, 3)
		dirty.fInfo = make([]FInfo, 2)
		dirty.mbData = make([]MBData, 2)
		dirty.slab = make([]byte, 4096)
	}
	verifapi.Havoc(dirty)
	for i := range dirty.intraL {
		// representation invariant of any state a real history leaves: stored modes are valid modes
		verifapi.Assume(dirty.intraL[i] < NumBModes)
	}
	lossyDecoderPool.Put(dirty)
	d2, w2, h2, y2, ys2, u2, v2, uvs2, err2 := DecodeFrame(vSampleVP8)
	verifapi.Assert(err2 == nil, "same frame decodes with a reused decoder")
	verifapi.Assert(d2 == dirty, "the pooled decoder was reused")
	verifapi.Assert(w2 == w1 && h2 == h1, "same dimensions")
	got := vCopyPlanes(w2, h2, y2, ys2, u2, v2, uvs2)
	verifapi.Assert(bytes.Equal(got, want), "same samples whatever state the pooled decoder was left in")
	verifapi.Cover(true, "reuse compared")
}

// vC11Scratch: working storage of VP8Encoder that is not state (outside the claim of the harness
// below: whether each is fully rewritten before it is read is not examined here).
var vC11Scratch = []string{
	"yuvIn", "yuvOut", "yuvOut2", "yuvP",
	"tmpCoeffs", "tmpQCoeffs", "tmpDQCoeffs", "tmpDCCoeffs", "tmpWHTDQ", "tmpWHTBuf", "tmpAllQ", "tmpACLevels",
	"tmpRecon", "tmpUVLevels", "tmpBestDQ", "tmpBestQ",
	"tmpAnSrc", "tmpAnPred", "tmpAnSrcU", "tmpAnSrcV", "tmpAnPredU", "tmpAnPredV",
	// iterator and its context rows (set up by InitIterator at the start of every pass), NZ context rows
	"mbIterator", "itTopY", "itTopU", "itTopV", "itTopModes", "itTopNZ", "topNz", "topNzDC", "statTopNz", "statTopNzDC",
	// analysis work areas
	"analysisAlphas", "segMapTmp",
	// token pages and per-macroblock page marks: their residue is the subject of VerifH_C06_Partitions
	"tokens",
}

// vC11Serial: work areas of the serial colour-conversion path; they are compared too when the picture
// takes that path (mode 4), skipped when it does not (they are then neither written nor read).
var vC11Serial = []string{"serialRowR", "serialRowG", "serialRowB", "serialRowA",
	"serialPlanarR", "serialPlanarG", "serialPlanarB", "serialPlanarA", "serialTmpRGB"}

func vC11Picture(w, h, seed int) *image.NRGBA {
	img := image.NewNRGBA(image.Rect(0, 0, w, h))
	s := uint32(seed)*2654435761 + 12345
	for i := 0; i < w*h; i++ {
		s = s*1664525 + 1013904223
		img.Pix[4*i], img.Pix[4*i+1], img.Pix[4*i+2], img.Pix[4*i+3] = byte(s>>24), byte(s>>16), byte(s>>8)^byte(i*7), 255
	}
	return img
}

// VerifH_C11_LossyEncoderReuse: NewEncoder handing out a pooled VP8Encoder whose every integer/boolean
// field and buffer element is ARBITRARY (residue of any earlier use on a picture with the same macroblock
// dimensions, including a rate-controlled one: non-nil rateCtrl, saved planes, row-sync pointer) leaves it
// in the same state as a freshly allocated encoder - every field except the working storage listed in
// vC11Scratch. (Sufficient condition; a difference is reported only if the native replay then shows
// different output bytes.)  mode: 0 default, 1 TargetSize, 2 TargetPSNR, 3 method 2 (stat loop path).
func VerifH_C11_LossyEncoderReuse(mode int) {
	encoderPool = sync.Pool{}
	var img image.Image = vC11Picture(20, 18, 1)
	skip := append(append([]string{}, vC11Scratch...), vC11Serial...)
	if mode >= 4 {
		// paletted source: takes the serial colour-conversion path, whose work areas are then compared too
		pal := image.NewPaletted(image.Rect(0, 0, 20, 18), color.Palette{color.NRGBA{10, 200, 30, 255}, color.NRGBA{250, 20, 90, 255}, color.NRGBA{0, 0, 255, 255}})
		for i := range pal.Pix {
			pal.Pix[i] = uint8((i*7 + i/20) % 3)
		}
		img = pal
		skip = vC11Scratch
	}
	cfg := DefaultConfig(60)
	switch mode {
	case 1:
		cfg.TargetSize = 260
	case 2:
		cfg.TargetPSNR = 36
	case 3:
		cfg.Method = 2
	}
	fresh := NewEncoder(img, cfg)

	old := DefaultConfig(35)
	old.TargetSize = 700
	old.Method = 6
	var prevImg image.Image = vC11Picture(30, 31, 2)
	if mode == 5 {
		// mode 5: instead of an arbitrary residue, the residue of ONE concrete earlier call that used the
		// serial conversion path on a translucent picture (decidable even when the residue is read)
		pal := image.NewPaletted(image.Rect(0, 0, 30, 31), color.Palette{color.NRGBA{10, 200, 30, 40}, color.NRGBA{250, 20, 90, 130}, color.NRGBA{0, 0, 255, 255}, color.NRGBA{9, 9, 9, 0}})
		for i := range pal.Pix {
			pal.Pix[i] = uint8((i*5 + i/30) % 4)
		}
		prevImg = pal
		old.HasAlpha = 1
	}
	dirty := NewEncoder(prevImg, old)
	verifapi.Assert(dirty != fresh && dirty.mbW == fresh.mbW && dirty.mbH == fresh.mbH, "second encoder is a distinct object of the same macroblock size")
	dirty.rateCtrl = &passStats{}
	dirty.parallelRS = newRowSync(dirty.mbH)
	dirty.savedY, dirty.savedU, dirty.savedV = make([]byte, 8), make([]byte, 4), make([]byte, 4)
	mbW, mbH, totalMB, ys, uvs := dirty.mbW, dirty.mbH, dirty.tokens.totalMB, dirty.yStride, dirty.uvStride
	if mode != 5 {
		verifapi.Havoc(dirty)
		verifapi.Havoc(dirty.rateCtrl)
	}
	// what every real history leaves unchanged: the macroblock dimensions the pool match is keyed on
	// and the sizes derived from them at allocation time
	dirty.mbW, dirty.mbH, dirty.tokens.totalMB, dirty.yStride, dirty.uvStride = mbW, mbH, totalMB, ys, uvs
	encoderPool.Put(dirty)

	reused := NewEncoder(img, cfg)
	verifapi.Assert(reused == dirty, "the pooled encoder was reused")
	verifapi.Cover(true, "reuse compared")
	verifapi.Candidate(!verifapi.Symbolic() || verifapi.SameExcept(reused, fresh, skip...), "a reused encoder starts in the same state as a fresh one")
	if !verifapi.Symbolic() {
		b1, e1 := fresh.EncodeFrame()
		b2, e2 := reused.EncodeFrame()
		verifapi.Assert(e1 == nil && e2 == nil, "both encodes succeed")
		verifapi.Assert(bytes.Equal(b1, b2), "same bytes from a reused encoder as from a fresh one")
	}
}
