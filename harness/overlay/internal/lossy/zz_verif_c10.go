package lossy

import (
	"github.com/deepteams/webp/internal/verifapi"
)

// ---- C10: the row pipeline of the lossy encoder (happens-before analysis) ----
//
// The real encodeFrameParallel runs on a concrete picture; rowSync.waitFor/signal are replaced by
// event markers, every row (and the overlapped token recorder) is a thread of the analysis with its
// own RowWorker, and the engine records the heap cells read and written between consecutive events.
// verifapi.CheckHB then asks the solver, for every pair of conflicting segments of different
// threads, whether some schedule allowed by the wait/signal events lets them overlap.

func vWaitEvent(rs *rowSync, y int, needed int32) { verifapi.Event(0, y, int(needed)) }
func vSignalEvent(rs *rowSync, y int, done int32) { verifapi.Event(1, y, int(done)) }

var vRowWorkers []RowWorker

func vEncodeRowThread(enc *VP8Encoder, w *RowWorker, y int, topY, topU, topV, topModes []uint8, topNz []uint32, topNzDC []uint8, rs *rowSync) {
	verifapi.Thread(1 + y)
	enc.encodeRow(&vRowWorkers[y], y, topY, topU, topV, topModes, topNz, topNzDC, rs)
	verifapi.Thread(0)
}

func vRecordAllTokensThread(enc *VP8Encoder, stats *ProbaStats) {
	if enc.parallelRS == nil {
		enc.recordAllTokens(stats)
		return
	}
	verifapi.Thread(1 + enc.mbH)
	enc.recordAllTokens(stats)
	verifapi.Thread(0)
}

// VerifH_C10_RowPipeline(mbW, mbH, pic): pic 0 noise (4x4 prediction everywhere), 1 flat, 2 gradient.
func VerifH_C10_RowPipeline(mbW, mbH, pic int) {
	w, h := mbW*16-3, mbH*16-5
	img := vC11Picture(w, h, 7)
	for i := 0; i < w*h; i++ {
		switch pic {
		case 1:
			img.Pix[4*i], img.Pix[4*i+1], img.Pix[4*i+2] = 90, 120, 200
		case 2:
			img.Pix[4*i], img.Pix[4*i+1], img.Pix[4*i+2] = byte(i%w*5), byte(i/w*7), byte(i%w+i/w)
		}
	}
	cfg := DefaultConfig(55)
	enc := NewEncoder(img, cfg)
	enc.analysis()
	enc.setSegmentProbas()
	vRowWorkers = make([]RowWorker, mbH)
	for i := range vRowWorkers {
		initRowWorker(&vRowWorkers[i], mbW, enc.useDerr)
	}
	verifapi.Procs(6)
	var stats ProbaStats
	enc.tokens.Reset()
	enc.encodeFrameParallel(&stats)
	verifapi.CheckHB("row pipeline: every pair of conflicting accesses of different rows / the token recorder is ordered by the wait/signal events")
	verifapi.Cover(true, "pipeline analysed")
}

// VerifH_C10_LossyForkJoin: fork/join regions of the lossy encoder's set-up on a concrete picture with
// GOMAXPROCS=n (race_check): importImage's luma row workers and chroma row-pair workers, and the
// macroblock analysis workers.
func VerifH_C10_LossyForkJoin(w, h, n int) {
	verifapi.Procs(n)
	img := vC11Picture(w, h, 3)
	enc := NewEncoder(img, DefaultConfig(60))
	enc.analysis()
	verifapi.Cover(enc.mbW*enc.mbH >= 1, "import and analysis ran")
}
