package lossy

import (
	"github.com/deepteams/webp/internal/dsp"
	"github.com/deepteams/webp/internal/verifapi"
	ref "github.com/deepteams/webp/internal/verifref/vp8"
)

// VerifH_C04_Filter: the in-loop deblocking kernels on one line of 8 samples across an edge equal
// the reference decoder's (x/image/vp8 filter2 / filter246, RFC 6386 section 15) for ALL sample
// values and all thresholds.  which: 0 simple filter (simpleHFilter16At), 1 macroblock edge
// (filterLoop26), 2 inner edge (filterLoop24).
func VerifH_C04_Filter(which int) {
	dsp.Init()
	var px [8]uint8
	for i := range px {
		px[i] = verifapi.U8("sample")
	}
	thresh, ithresh, hev := int(verifapi.U8("thresh")), int(verifapi.U8("ithresh")), int(verifapi.U8("hev"))
	var got [8]uint8
	var want [8]uint8
	switch which {
	case 0:
		buf := make([]byte, 16*8)
		copy(buf, px[:])
		simpleHFilter16At(buf, 4, 8, thresh)
		copy(got[:], buf[:8])
		want = ref.VerifFilter2(px, thresh)
	case 1:
		buf := append([]byte(nil), px[:]...)
		filterLoop26VAt(buf, 4, 1, 1, thresh, ithresh, hev)
		copy(got[:], buf)
		want = ref.VerifFilter246(px, thresh, ithresh, hev, false)
	case 2:
		buf := append([]byte(nil), px[:]...)
		filterLoop24VAt(buf, 4, 1, 1, thresh, ithresh, hev)
		copy(got[:], buf)
		want = ref.VerifFilter246(px, thresh, ithresh, hev, true)
	}
	verifapi.Assert(got == want, "filtered samples equal the reference")
	verifapi.Cover(got != px, "some input is modified by the filter")
}
