package lossy

import (
	"github.com/deepteams/webp/internal/dsp"
	"github.com/deepteams/webp/internal/verifapi"
	ref "github.com/deepteams/webp/internal/verifref/vp8"
)

// VerifH_C04_Filter: the in-loop deblocking kernels on one line of 8 samples across an edge equal
// the reference decoder's (x/image/vp8 filter2 / filter246, RFC 6386 section 15) for ALL sample
// values and all thresholds.  which: 0 simple filter (simpleHFilter16At), 1 macroblock edge
// (filterLoop26), 2 inner edge (filterLoop24).
func VerifH_C04_Filter(which int) {
	dsp.Init()
	var px [8]uint8
	for i := range px {
		px[i] = verifapi.U8("sample")
	}
	thresh, ithresh, hev := int(verifapi.U8("thresh")), int(verifapi.U8("ithresh")), int(verifapi.U8("hev"))
	var got [8]uint8
	var want [8]uint8
	switch which {
	case 0:
		buf := make([]byte, 16*8)
		copy(buf, px[:])
		simpleHFilter16At(buf, 4, 8, thresh)
		copy(got[:], buf[:8])
		want = ref.VerifFilter2(px, thresh)
	case 1:
		buf := append([]byte(nil), px[:]...)
		filterLoop26VAt(buf, 4, 1, 1, thresh, ithresh, hev)
		copy(got[:], buf)
		want = ref.VerifFilter246(px, thresh, ithresh, hev, false)
	case 2:
		buf := append([]byte(nil), px[:]...)
		filterLoop24VAt(buf, 4, 1, 1, thresh, ithresh, hev)
		copy(got[:], buf)
		want = ref.VerifFilter246(px, thresh, ithresh, hev, true)
	}
	verifapi.Assert(got == want, "filtered samples equal the reference")
	verifapi.Cover(got != px, "some input is modified by the filter")
}

// vFields is a BoolSource handing out nondeterministic field values: the header parsers are checked
// for what they do with every value of every field; the arithmetic decoding itself is a separate concern.
type vFields struct{}

func (vFields) GetBit(prob uint8) int { return int(verifapi.U8("bit") & 1) }
func (vFields) GetValue(n int) uint32 { return verifapi.U32("value") & (1<<uint(n) - 1) }
func (vFields) GetSigned(v int) int {
	if verifapi.Bool("sign") {
		return -v
	}
	return v
}
func (vFields) GetSignedValue(n int) int32 {
	m := int32(verifapi.U32("magnitude") & (1<<uint(n) - 1))
	if verifapi.Bool("sign") {
		return -m
	}
	return m
}
func (vFields) EOF() bool { return false }

// VerifH_C04_Quant: ParseQuant yields, for every base index, every delta and every per-segment
// quantiser (absolute or relative), the dequantisation factors of the reference decoder
// (RFC 6386 section 14.1 tables, x/image/vp8 copy).
func VerifH_C04_Quant(useSegment int) {
	var hdr SegmentHeader
	hdr.UseSegment = useSegment == 1
	hdr.AbsoluteDelta = verifapi.Bool("absolute")
	for i := range hdr.Quantizer {
		hdr.Quantizer[i] = int8(verifapi.I8("segq"))
		verifapi.Assume(hdr.Quantizer[i] >= -127)
		if hdr.AbsoluteDelta {
			verifapi.Assume(hdr.Quantizer[i] >= 0)
		}
	}
	// record the field values in the order ParseQuant reads them
	base := int32(verifapi.U32("base") & 127)
	var d [5]int32
	for i := range d {
		if verifapi.Bool("has_delta") {
			d[i] = int32(verifapi.U32("delta")&15) * (1 - 2*int32(verifapi.U8("neg")&1))
		}
	}
	src := &vScript{vals: []int32{base, d[0], d[1], d[2], d[3], d[4]}}
	var dqm [NumMBSegments]QuantMatrix
	ParseQuant(src, &hdr, dqm[:])
	for i := 0; i < NumMBSegments; i++ {
		q := base
		if hdr.UseSegment {
			if hdr.AbsoluteDelta {
				q = int32(hdr.Quantizer[i])
			} else {
				q += int32(hdr.Quantizer[i])
			}
		}
		want := ref.VerifDequant(q, d[0], d[1], d[2], d[3], d[4])
		m := &dqm[i]
		verifapi.Assert(m.Y1Mat[0] == int(want[0]) && m.Y1Mat[1] == int(want[1]), "luma DC/AC factors")
		verifapi.Assert(m.Y2Mat[0] == int(want[2]) && m.Y2Mat[1] == int(want[3]), "second-order luma DC/AC factors")
		verifapi.Assert(m.UVMat[0] == int(want[4]) && m.UVMat[1] == int(want[5]), "chroma DC/AC factors")
	}
	verifapi.Cover(true, "compared")
}

// vScript replays a fixed sequence of (optional signed) fields: GetValue(7) = base index, then for each
// delta GetBit = present flag and GetSignedValue(4) = its value.
type vScript struct {
	vals []int32
	pos  int
}

func (s *vScript) GetBit(prob uint8) int {
	if s.vals[s.pos] != 0 {
		return 1
	}
	s.pos++ // absent field: consumed by the flag alone
	return 0
}
func (s *vScript) GetValue(n int) uint32 { v := s.vals[s.pos]; s.pos++; return uint32(v) }
func (s *vScript) GetSigned(v int) int   { return v }
func (s *vScript) GetSignedValue(n int) int32 {
	v := s.vals[s.pos]
	s.pos++
	return v
}
func (s *vScript) EOF() bool { return false }

// VerifH_C04_FilterStrengths: precomputeFilterStrengths derives, for every filter level, sharpness,
// reference/mode delta and per-segment strength (absolute or relative), the limits of the reference
// decoder (RFC 6386 section 15.2: interior limit shift by sharpness, 9-sharpness cap, hev thresholds).
func VerifH_C04_FilterStrengths(useSegment int) {
	dec := &Decoder{filterType: 2}
	h := &dec.filterHdr
	h.Level = int(verifapi.U8("level") & 63)
	h.Sharpness = int(verifapi.U8("sharpness") & 7)
	h.UseLFDelta = verifapi.Bool("use_delta")
	h.RefLFDelta[0] = int(verifapi.I8("ref_delta"))
	h.ModeLFDelta[0] = int(verifapi.I8("mode_delta"))
	verifapi.Assume(h.RefLFDelta[0] >= -63 && h.RefLFDelta[0] <= 63 && h.ModeLFDelta[0] >= -63 && h.ModeLFDelta[0] <= 63)
	dec.segHdr.UseSegment = useSegment == 1
	dec.segHdr.AbsoluteDelta = verifapi.Bool("absolute")
	var seg [4]int8
	for i := range seg {
		seg[i] = verifapi.I8("seg_strength")
		verifapi.Assume(seg[i] >= -63 && seg[i] <= 63)
		dec.segHdr.FilterStrength[i] = seg[i]
	}
	// the reference decoder accumulates the level in int8: keep every partial sum within int8 (its own
	// arithmetic wraps beyond that; the decoder under test uses int and clamps to 63 as RFC 6386 says)
	for i := range seg {
		base := h.Level
		if dec.segHdr.UseSegment {
			base = int(seg[i])
			if !dec.segHdr.AbsoluteDelta {
				base += h.Level
			}
		}
		verifapi.Assume(base >= -128 && base <= 127)
		verifapi.Assume(base+h.RefLFDelta[0] >= -128 && base+h.RefLFDelta[0] <= 127)
		verifapi.Assume(base+h.RefLFDelta[0]+h.ModeLFDelta[0] >= -128 && base+h.RefLFDelta[0]+h.ModeLFDelta[0] <= 127)
	}
	dec.precomputeFilterStrengths()
	want := ref.VerifFilterParams(int8(h.Level), uint8(h.Sharpness), h.UseLFDelta, int8(h.RefLFDelta[0]), int8(h.ModeLFDelta[0]),
		dec.segHdr.UseSegment, !dec.segHdr.AbsoluteDelta, seg)
	for s := 0; s < NumMBSegments; s++ {
		for j := 0; j <= 1; j++ {
			g := dec.fstrengths[s][j]
			w := want[s][j]
			verifapi.Assert(int(g.FLimit) == w[0], "edge limit (2*level+ilevel, 0 = filter off)")
			if w[0] != 0 {
				verifapi.Assert(int(g.FILevel) == w[1], "interior limit")
				verifapi.Assert(int(g.HevThresh) == w[2], "high-edge-variance threshold")
			}
			verifapi.Assert(g.FInner == (w[3] == 1), "inner-edge flag")
		}
	}
	verifapi.Cover(true, "compared")
}

// VerifH_C04_ReconstructRow: the decoder's macroblock-row reconstruction with all residuals zero - border
// initialisation (127/129), left-sample rotation, top samples from the row above, top-right samples (next
// macroblock / replication at the right edge, replication down the sub-block rows), sub-block order,
// DC variants at the frame edges, chroma, stashing of the bottom row - equals the reference decoder's
// (x/image vp8 prepareYBR + reconstructMacroblock) for symbolic samples of the row above.
//   mby: 0 (top row: no row above) or 1; pattern: mode assignment of the two macroblocks
//   (0..9: both 4x4 with all sub-blocks in that mode; 10..13: both 16x16 in mode pattern-10;
//    14: first 4x4 with mixed modes, second 16x16; 15: first 16x16, second 4x4 mixed).
func VerifH_C04_ReconstructRow(mby, pattern int) {
	dsp.Init()
	const mbW = 2
	dec := &Decoder{mbW: mbW, mbH: 2, mbY: mby}
	dec.yuvB = make([]byte, YUVSize)
	for i := range dec.yuvB {
		dec.yuvB[i] = verifapi.U8("workspace_residue")
	}
	dec.yuvT = make([]TopSamples, mbW)
	dec.mbData = make([]MBData, mbW)
	dec.cacheYStride, dec.cacheUVStride = 16*mbW, 8*mbW
	dec.cacheY = make([]byte, 32*dec.cacheYStride)
	dec.cacheU = make([]byte, 16*dec.cacheUVStride)
	dec.cacheV = make([]byte, 16*dec.cacheUVStride)
	topY := make([]uint8, 16*mbW)
	topU := make([]uint8, 8*mbW)
	topV := make([]uint8, 8*mbW)
	if mby > 0 {
		for x := 0; x < mbW; x++ {
			for i := 0; i < 16; i++ {
				dec.yuvT[x].Y[i] = verifapi.U8("top_y")
				topY[16*x+i] = dec.yuvT[x].Y[i]
			}
			for i := 0; i < 8; i++ {
				dec.yuvT[x].U[i] = verifapi.U8("top_u")
				dec.yuvT[x].V[i] = verifapi.U8("top_v")
				topU[8*x+i], topV[8*x+i] = dec.yuvT[x].U[i], dec.yuvT[x].V[i]
			}
		}
	}
	i4 := make([]bool, mbW)
	modes := make([][16]uint8, mbW)
	cmode := make([]uint8, mbW)
	for x := 0; x < mbW; x++ {
		four := pattern < 10 || (pattern == 14 && x == 0) || (pattern == 15 && x == 1)
		i4[x] = four
		for n := 0; n < 16; n++ {
			switch {
			case pattern < 10:
				modes[x][n] = uint8(pattern)
			case four:
				modes[x][n] = uint8((n*3 + 1 + x) % 10)
			default:
				modes[x][n] = uint8((pattern + x) % 4)
			}
		}
		cmode[x] = uint8((pattern + x) % 4)
		b := &dec.mbData[x]
		b.IsI4x4, b.IModes, b.UVMode = four, modes[x], cmode[x]
	}
	dec.reconstructRow()
	wantY, wantCb, wantCr := ref.VerifReconstructRow(mbW, mby, topY, topU, topV, i4, modes, cmode)
	yo, uvo := mby*16*dec.cacheYStride, mby*8*dec.cacheUVStride
	for j := 0; j < 16; j++ {
		for i := 0; i < 16*mbW; i++ {
			verifapi.Assert(dec.cacheY[yo+j*dec.cacheYStride+i] == wantY[j*16*mbW+i], "reconstructed luma sample equals the reference decoder's")
		}
	}
	for j := 0; j < 8; j++ {
		for i := 0; i < 8*mbW; i++ {
			verifapi.Assert(dec.cacheU[uvo+j*dec.cacheUVStride+i] == wantCb[j*8*mbW+i] && dec.cacheV[uvo+j*dec.cacheUVStride+i] == wantCr[j*8*mbW+i], "reconstructed chroma sample equals the reference decoder's")
		}
	}
	verifapi.Cover(true, "row compared")
}
