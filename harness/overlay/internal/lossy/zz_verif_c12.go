package lossy

import "github.com/deepteams/webp/internal/verifapi"

// Call-trace stubs for the phases of EncodeFrame (engine "redirect"): which phases run, in which
// order, must be a function of the image and options only - never of GOMAXPROCS.
var vTrace []int

func vStubAnalysis(enc *VP8Encoder)          { vTrace = append(vTrace, 1) }
func vStubSetSegmentProbas(enc *VP8Encoder)  { vTrace = append(vTrace, 2) }
func vStubStatLoop(enc *VP8Encoder)          { vTrace = append(vTrace, 3) }
func vStubSaveSourcePixels(enc *VP8Encoder)  { vTrace = append(vTrace, 4) }
func vStubEncodeFrameSerial(enc *VP8Encoder) { vTrace = append(vTrace, 5) }
func vStubEncodeFrameParallel(enc *VP8Encoder, stats *ProbaStats) { vTrace = append(vTrace, 6) }
func vStubAdjustQuant(enc *VP8Encoder) bool  { vTrace = append(vTrace, 7); return true }
func vStubCollectAllStats(enc *VP8Encoder, stats *ProbaStats) { vTrace = append(vTrace, 8) }
func vStubOptimizeProba(stats *ProbaStats, proba *Proba) int { vTrace = append(vTrace, 9); return 0 }
func vStubRerecord(enc *VP8Encoder)          { vTrace = append(vTrace, 10) }
func vStubEmitFrame(enc *VP8Encoder) ([]byte, error) { vTrace = append(vTrace, 11); return []byte{0}, nil }
func vStubComputeStats(enc *VP8Encoder, frameData []byte) { vTrace = append(vTrace, 12) }

// VerifH_C12_LossyDriver: the sequence of encoding phases EncodeFrame runs (serial vs row-parallel
// driver, stat loop, rate-control search, statistics collection) is the same for GOMAXPROCS = N
// (symbolic, 1..64) as for GOMAXPROCS = 1, for every method, size and rate-control setting.
func VerifH_C12_LossyDriver() {
	mk := func() *VP8Encoder {
		enc := &VP8Encoder{}
		return enc
	}
	mbH := int(verifapi.U8("mbH"))
	verifapi.Assume(mbH >= 1 && mbH <= 64)
	cfg := EncodeConfig{Method: int(verifapi.U8("method") % 7), Pass: int(verifapi.U8("pass") % 11), TargetSize: int(verifapi.U16("tsize"))}
	if verifapi.Bool("psnr") {
		cfg.TargetPSNR = 40
	}
	n := int(verifapi.U8("procs"))
	verifapi.Assume(n >= 1 && n <= 64)
	run := func(procs int) []int {
		verifapi.Procs(procs)
		enc := mk()
		enc.mbH, enc.mbW, enc.config = mbH, 4, cfg
		vTrace = nil
		_, err := enc.EncodeFrame()
		verifapi.Assert(err == nil, "EncodeFrame completes")
		return vTrace
	}
	a := run(1)
	b := run(n)
	verifapi.Assert(len(a) == len(b), "same number of phases for every GOMAXPROCS")
	for i := range a {
		if i < len(b) {
			verifapi.Assert(a[i] == b[i], "same encoding driver and phases for every GOMAXPROCS")
		}
	}
	verifapi.Cover(n > 1, "multi-CPU case compared")
}
