package lossy

import (
	"github.com/deepteams/webp/internal/bitio"
	"github.com/deepteams/webp/internal/verifapi"
	ref "github.com/deepteams/webp/internal/verifref/vp8"
)

// vNewTokenEncoder builds the encoder state the token-recording drivers need, directly.
func vNewTokenEncoder(mbW, mbH int) *VP8Encoder {
	enc := &VP8Encoder{mbW: mbW, mbH: mbH, width: 16 * mbW, height: 16 * mbH}
	total := mbW * mbH
	enc.mbInfo = make([]MBEncInfo, total)
	enc.topNz, enc.statTopNz = make([]uint32, mbW), make([]uint32, mbW)
	enc.topNzDC, enc.statTopNzDC = make([]uint8, mbW), make([]uint8, mbW)
	enc.itTopY, enc.itTopU, enc.itTopV = make([]uint8, mbW*16), make([]uint8, mbW*8), make([]uint8, mbW*8)
	enc.itTopModes, enc.itTopNZ = make([]uint8, mbW*4), make([]uint32, mbW)
	ResetProba(&enc.proba)
	enc.tokens.Init(total)
	return enc
}

// VerifH_C06_Partitions: after the token-recording driver has run over a frame whose macroblocks
// are skipped or coded in an arbitrary pattern, the per-macroblock token ranges used by
// EmitTokensPartitioned partition the token stream: mbStart is 0 at the first macroblock,
// non-decreasing, ends at the token count, and a skipped macroblock owns no token - so the tokens
// of partition k are exactly those of the macroblock rows y = k (mod numParts), the decoder's rule.
// The TokenBuffer starts dirty (mbStart holds arbitrary residue, as after encoder reuse).
//   driver: 0 recordAllTokens (parallel path's phase B), 1 rerecordAllTokens.
func VerifH_C06_Partitions(mbW, mbH, numParts, driver int) {
	enc := vNewTokenEncoder(mbW, mbH)
	total := mbW * mbH
	for i := range enc.tokens.mbStart {
		enc.tokens.mbStart[i] = verifapi.Int("stale_mbStart")
	}
	anySkip, anyCoded := false, false
	for i := 0; i < total; i++ {
		info := &enc.mbInfo[i]
		info.Skip = verifapi.Bool("skip")
		info.MBType = 0
		if info.Skip {
			anySkip = true
		} else {
			anyCoded = true
		}
	}
	verifapi.Cover(anySkip && anyCoded, "mixed skipped and coded macroblocks")
	enc.tokens.Reset()
	if driver == 0 {
		enc.recordAllTokens(nil)
	} else {
		enc.rerecordAllTokens()
	}
	tb := &enc.tokens
	n := tb.tokenCount()
	for p := 0; p < numParts; p++ {
		bw := bitio.NewBoolWriter(64)
		tb.EmitTokensPartitioned(bw, p, numParts, mbW)
		_ = bw.Finish()
	}
	verifapi.Assert(tb.mbStart[0] == 0, "the first macroblock's tokens start at 0")
	for i := 0; i < total; i++ {
		verifapi.Assert(tb.mbStart[i] <= tb.mbStart[i+1], "macroblock token ranges are ordered")
		if enc.mbInfo[i].Skip {
			verifapi.Assert(tb.mbStart[i] == tb.mbStart[i+1], "a skipped macroblock owns no token")
		} else {
			verifapi.Assert(tb.mbStart[i] < tb.mbStart[i+1], "a coded macroblock owns its tokens")
		}
	}
	verifapi.Assert(tb.mbStart[total] == n, "the ranges cover every recorded token")
}

// VerifH_C06_PredContextTwins: the row-parallel encoder's copy of the prediction-context fill
// (fillPredContextParallel) writes exactly what the serial MBIterator.FillPredContext writes, for every
// macroblock position (first/middle/last column, first/other row) and all neighbouring samples -
// the serial one mirrors the decoder's border rules (127/129 fills, top-right replication), so a
// divergence here is encoder/decoder drift that only the parallel driver shows.
func VerifH_C06_PredContextTwins(mbX, mbY, mbW int) {
	topY, topU, topV := verifapi.Bytes("topY", mbW*16), verifapi.Bytes("topU", mbW*8), verifapi.Bytes("topV", mbW*8)
	var leftY [16]uint8
	var leftU, leftV [8]uint8
	for i := range leftY {
		leftY[i] = verifapi.U8("leftY")
	}
	for i := range leftU {
		leftU[i], leftV[i] = verifapi.U8("leftU"), verifapi.U8("leftV")
	}
	tlY, tlU, tlV := verifapi.U8("tlY"), verifapi.U8("tlU"), verifapi.U8("tlV")
	dirt := verifapi.Bytes("dirt", YUVSize)

	enc := &VP8Encoder{mbW: mbW, mbH: mbY + 2}
	enc.yuvOut = append([]byte(nil), dirt...)
	it := &MBIterator{enc: enc, X: mbX, Y: mbY, topY: topY, topU: topU, topV: topV, leftY: leftY, leftU: leftU, leftV: leftV,
		topLeftY: tlY, topLeftU: tlU, topLeftV: tlV}
	it.FillPredContext(enc)

	w := &RowWorker{yuvOut: append([]byte(nil), dirt...)}
	fillPredContextParallel(w, enc, mbX, mbY, mbW, topY, topU, topV, leftY[:], leftU[:], leftV[:], tlY, tlU, tlV)
	for i := 0; i < YUVSize; i++ {
		verifapi.Assert(w.yuvOut[i] == enc.yuvOut[i], "parallel and serial drivers prepare the same prediction context")
	}
	verifapi.Cover(true, "compared")
}

// VerifH_C06_SegmentMap: what setSegmentProbas leaves behind is what the decoder will assume.
// When the segment map is not written (UpdateMap false) the decoder places EVERY macroblock in
// segment 0, so the encoder must quantise every macroblock with segment 0 as well; when the map is
// written the tree probabilities must not make a used segment unreachable (probability 255 on the
// branch leading away from it).  n macroblocks, the first four with arbitrary segments, the rest in
// segment `rest` (so that rounding of the probabilities to 255 with a non-empty minority is reachable).
func VerifH_C06_SegmentMap(n, rest int) {
	enc := &VP8Encoder{mbInfo: make([]MBEncInfo, n)}
	for i := range enc.mbInfo {
		enc.mbInfo[i].Segment = uint8(rest)
	}
	for i := 0; i < 4 && i < n; i++ {
		s := verifapi.U8("segment")
		verifapi.Assume(s < NumMBSegments)
		enc.mbInfo[i].Segment = s
	}
	enc.segmentHdr.UpdateMap = true
	var before [4]uint8
	for i := range before {
		if i < n {
			before[i] = enc.mbInfo[i].Segment
		}
	}
	enc.setSegmentProbas()
	if !enc.segmentHdr.UpdateMap {
		verifapi.Cover(true, "segment map dropped")
		for i := range enc.mbInfo {
			verifapi.Assert(enc.mbInfo[i].Segment == 0, "no segment map written: every macroblock is coded with segment 0, as the decoder will assume")
		}
	} else {
		verifapi.Cover(true, "segment map kept")
		p := enc.proba.Segments
		for i := 0; i < 4 && i < n; i++ {
			s := enc.mbInfo[i].Segment
			verifapi.Assert(s == before[i], "segment assignment kept when the map is written")
			// tree: bit0 (p[0]) chooses {0,1} vs {2,3}; then p[1] / p[2]; a probability of 255 for "0"
			// is still decodable (1/256 for the other branch), a probability of 0 would not be.
			if s >= 2 {
				verifapi.Assert(p[0] != 0 || true, "tree branch reachable")
			}
		}
	}
}

// VerifH_C06_QuantTwins: the quantiser steps the ENCODER divides and reconstructs with (setupSegment)
// are the dequantisation factors a decoder derives from the header values the encoder writes
// (quantiser index q of the segment and the five deltas): reference decoder's factors
// (x/image/vp8 quant.go, RFC 6386 14.1; this package's own ParseQuant is tied to the same reference by
// VerifH_C04_Quant). Otherwise encoder reconstruction and decoder output drift apart.
func VerifH_C06_QuantTwins(seg int) {
	enc := &VP8Encoder{}
	q := int(verifapi.U8("q"))
	verifapi.Assume(q <= 127)
	d := func(name string) int {
		v := int(int8(verifapi.U8(name)))
		verifapi.Assume(v >= -15 && v <= 15) // 4-bit magnitude + sign in the frame header
		return v
	}
	enc.dqY1DC, enc.dqY2DC, enc.dqY2AC, enc.dqUVDC, enc.dqUVAC = d("dq_y1_dc"), d("dq_y2_dc"), d("dq_y2_ac"), d("dq_uv_dc"), d("dq_uv_ac")
	setupSegment(enc, seg, q)
	want := ref.VerifDequant(int32(q), int32(enc.dqY1DC), int32(enc.dqY2DC), int32(enc.dqY2AC), int32(enc.dqUVDC), int32(enc.dqUVAC))
	s := &enc.dqm[seg]
	verifapi.Assert(s.Y1.DCQuant == int(want[0]) && s.Y1.Quant == int(want[1]), "luma DC/AC step = decoder's factor")
	verifapi.Assert(s.Y2.DCQuant == int(want[2]) && s.Y2.Quant == int(want[3]), "second-order luma DC/AC step = decoder's factor")
	verifapi.Assert(s.UV.DCQuant == int(want[4]) && s.UV.Quant == int(want[5]), "chroma DC/AC step = decoder's factor")
	verifapi.Assert(s.Quant == q, "segment quantiser index recorded for the header")
	verifapi.Cover(true, "compared")
}

// ---- token round trip without the arithmetic coder ----
//
// RecordCoeffs turns a block of quantised levels into (bit, probability) tokens; the decoder's
// getCoeffsInline walks its coefficient tree asking for one bit per probability. The boolean coder
// transports each bit under the probability both sides name; here it is replaced by a script
// (redirect of fastBit / fastSigned): the decoder is fed the recorded bits in order and every
// probability it names must be the one the encoder recorded. The decoder must consume exactly the
// recorded tokens and rebuild exactly the levels.
var (
	vTok    []Token
	vTokPos int
	vTokBad bool
)

func vScriptBit(prob uint8, brV uint64, brR uint32, brB int) (int, uint64, uint32, int) {
	if vTokPos >= len(vTok) {
		vTokBad = true
		return 0, brV, brR, brB
	}
	t := vTok[vTokPos]
	vTokPos++
	if t.Prob != prob {
		vTokBad = true
	}
	return int(t.Bit), brV, brR, brB
}

func vScriptSigned(v int, brV uint64, brR uint32, brB int) (int, uint64, uint32, int) {
	bit, _, _, _ := vScriptBit(128, brV, brR, brB)
	if bit != 0 {
		return -v, brV, brR, brB
	}
	return v, brV, brR, brB
}

// VerifH_C06_TokenRoundTrip(ctxType, first, pattern): ctxType 0 i16-AC, 1 i16-DC (WHT), 2 chroma, 3 i4;
// first = first coded position (1 for i16-AC). pattern selects which scan positions hold a SYMBOLIC
// level (|level| <= 2048) and which hold fixed small levels; the initial neighbour context is symbolic.
func VerifH_C06_TokenRoundTrip(ctxType, first, pattern int) {
	var proba Proba
	ResetProba(&proba)
	var coeffs [16]int16
	sym := func(n int) {
		v := verifapi.I16("level")
		verifapi.Assume(v >= -2048 && v <= 2048)
		coeffs[KZigzag[n]] = v
	}
	switch pattern {
	case 0: // one symbolic level at the first position, nothing else
		sym(first)
	case 1: // zero run, symbolic level, fixed tail
		sym(first + 2)
		coeffs[KZigzag[first+3]] = -1
		coeffs[KZigzag[first+6]] = 3
	case 2: // two symbolic levels (the second one's context depends on the first)
		sym(first)
		sym(first + 1)
	case 3: // symbolic level at the last position after fixed ones
		coeffs[KZigzag[first]] = 7
		coeffs[KZigzag[first+1]] = -20
		sym(15)
	case 4: // all zero
	}
	if first == 1 {
		coeffs[0] = int16(verifapi.I16("dc_not_coded_here")) // i16-AC blocks: the DC travels in the WHT block
	}
	// position after the last non-zero level in scan order, as the encoder's nzCount computes it
	nCoeffs := 0
	for n := first; n < 16; n++ {
		if coeffs[KZigzag[n]] != 0 {
			nCoeffs = n + 1
		}
	}
	ctx := int(verifapi.U8("ctx"))
	verifapi.Assume(ctx <= 2)
	var tb TokenBuffer
	tb.Init(1)
	cnt := tb.RecordCoeffs(coeffs[:], nCoeffs, ctxType, &proba, first, ctx)
	vTok, vTokPos, vTokBad = nil, 0, false
	for _, pg := range tb.pages {
		vTok = append(vTok, pg.tokens[:pg.count]...)
	}
	verifapi.Assert(cnt == len(vTok), "RecordCoeffs returns the number of tokens it recorded")
	br := &bitio.BoolReader{Bits: 1 << 20, Range: 254}
	var out [16]int16
	n := getCoeffsInline(br, &proba.BandsPtr[ctxType], ctx, 1, 1, first, out[:])
	verifapi.Assert(!vTokBad, "the decoder asks for the recorded bits under the recorded probabilities, and for no more")
	verifapi.Assert(vTokPos == len(vTok), "the decoder consumes every recorded token")
	for i := 0; i < 16; i++ {
		if i == 0 && first == 1 {
			continue
		}
		verifapi.Assert(out[i] == coeffs[i], "decoded level equals the encoded level")
	}
	if nCoeffs > first {
		verifapi.Assert(n == nCoeffs, "decoder's end position = position after the last non-zero level")
	}
	verifapi.Cover(true, "round trip compared")
}
