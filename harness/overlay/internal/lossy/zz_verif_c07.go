package lossy

import (
	"errors"
	"image"

	"github.com/deepteams/webp/internal/lossless"
	"github.com/deepteams/webp/internal/verifapi"
)

// Exact stand-in for the VP8L codec in the alpha harnesses (its round trip is C01): header + one
// byte (green) per pixel (+ vLLExtra bytes so that the "compressed larger than raw" fallback is
// explored). The harness asserts the ARGB it receives has the documented alpha-in-green form.
var vLLExtra int

func vStubLLEncode(argb []uint32, width, height int, config *lossless.EncoderConfig) ([]byte, error) {
	bits := uint32(width-1) | uint32(height-1)<<14
	out := []byte{0x2f, byte(bits), byte(bits >> 8), byte(bits >> 16), byte(bits >> 24)}
	for _, p := range argb {
		verifapi.Assert(p&0xffff00ff == 0xff000000, "alpha is embedded in the green channel of an opaque ARGB pixel")
		out = append(out, byte(p>>8))
	}
	for i := 0; i < vLLExtra; i++ {
		out = append(out, 0x77)
	}
	return out, nil
}

func vStubLLDecode(data []byte) (*image.NRGBA, error) {
	if len(data) < 5 || data[0] != 0x2f {
		return nil, errors.New("stub: bad header")
	}
	bits := uint32(data[1]) | uint32(data[2])<<8 | uint32(data[3])<<16 | uint32(data[4])<<24
	w, h := int(bits&0x3fff)+1, int((bits>>14)&0x3fff)+1
	if len(data) < 5+w*h {
		return nil, errors.New("stub: short")
	}
	img := image.NewNRGBA(image.Rect(0, 0, w, h))
	for i := 0; i < w*h; i++ {
		img.Pix[4*i+1] = data[5+i]
		img.Pix[4*i+3] = 255
	}
	return img, nil
}

// VerifH_C07_Internal: encodeAlphaInternal (every method x filter) followed by DecodeAlpha returns
// the plane exactly; the header byte announces method and filter.  extra: stub stream padding
// (0 = compressed path, 1 = "larger than raw" fallback).
func VerifH_C07_Internal(w, h, method, filter, extra int) {
	vLLExtra = extra
	plane := verifapi.Bytes("alpha", w*h)
	orig := append([]byte(nil), plane...)
	out, n, err := encodeAlphaInternal(plane, w, h, method, filter, false, verifapi.Int("effort")&7)
	verifapi.Assert(err == nil && n == len(out) && len(out) >= 1, "alpha payload produced")
	for i := range plane {
		verifapi.Assert(plane[i] == orig[i], "source plane not modified")
	}
	verifapi.Assert(int(out[0]>>2)&3 == filter, "header announces the filter used")
	verifapi.Assert(out[0]>>4 == 0, "no pre-processing flag at alpha quality 100")
	if method == AlphaLosslessCompression && extra == 0 {
		verifapi.Assert(out[0]&3 == AlphaLosslessCompression, "header announces lossless compression")
		verifapi.Cover(true, "lossless-compressed alpha")
	} else {
		verifapi.Assert(out[0]&3 == AlphaNoCompression, "header announces raw alpha (incl. fallback when compression does not pay)")
	}
	dec, derr := DecodeAlpha(out, w, h)
	verifapi.Assert(derr == nil && len(dec) == w*h, "alpha payload decodes")
	for i := range dec {
		verifapi.Assert(dec[i] == orig[i], "decoded alpha equals the source alpha")
	}
}

// VerifH_C07_EncodeAlpha: the public alpha coder at quality 100 with every method / filter mode /
// effort level: DecodeAlpha(EncodeAlpha(plane)) == plane.
func VerifH_C07_EncodeAlpha(w, h, extra int) {
	vLLExtra = extra
	plane := verifapi.Bytes("alpha", w*h)
	orig := append([]byte(nil), plane...)
	cfg := &AlphaEncoderConfig{Quality: 100, Method: verifapi.Int("method"), Filter: verifapi.Int("filter"), EffortLevel: verifapi.Int("effort")}
	verifapi.Assume(cfg.Method == 0 || cfg.Method == 1)
	verifapi.Assume(cfg.Filter >= 0 && cfg.Filter <= 5) // 4 explicit filters + the Fast/Best modes
	verifapi.Assume(cfg.EffortLevel >= 0 && cfg.EffortLevel <= 6)
	out, err := EncodeAlpha(plane, w, h, cfg)
	verifapi.Assert(err == nil && len(out) >= 1, "alpha payload produced")
	dec, derr := DecodeAlpha(out, w, h)
	verifapi.Assert(derr == nil && len(dec) == w*h, "alpha payload decodes")
	for i := range dec {
		verifapi.Assert(dec[i] == orig[i], "decoded alpha equals the source alpha for every method, filter mode and effort")
	}
	verifapi.Cover(cfg.Method == 1 && cfg.Filter == AlphaFilterModeBest, "best-filter lossless path")
}
