package lossy

import "github.com/deepteams/webp/internal/verifapi"

// VerifH_C02_AssembleFrame: the VP8 frame header written by assembleFrame is consistent with the
// payload for partition lengths on both sides of every byte boundary of its size fields: key-frame
// tag, show bit, 19-bit first-partition length, start code, 14-bit dimensions, and the 3-byte sizes
// of all but the last token partition; the partitions follow back to back. Partition contents are
// symbolic at their first and last byte (the rest is zero) - only lengths matter here.
func VerifH_C02_AssembleFrame(len0, lenA, lenB, nparts int) {
	enc := &VP8Encoder{width: int(verifapi.U16("w")&0x3fff) | 1, height: int(verifapi.U16("h")&0x3fff) | 1}
	mk := func(n int, tag string) []byte {
		b := make([]byte, n)
		if n > 0 {
			b[0], b[n-1] = verifapi.U8(tag), verifapi.U8(tag)
		}
		return b
	}
	part0 := mk(len0, "p0")
	var parts [][]byte
	lens := []int{lenA, lenB, 3, 1, 2, 1, 1, 1}
	for i := 0; i < nparts; i++ {
		parts = append(parts, mk(lens[i], "tp"))
	}
	out := enc.assembleFrame(part0, parts)
	tag := uint32(out[0]) | uint32(out[1])<<8 | uint32(out[2])<<16
	verifapi.Assert(tag&1 == 0, "key frame bit")
	verifapi.Assert(tag>>4&1 == 1, "show_frame bit")
	verifapi.Assert(int(tag>>5) == len0, "first-partition length field equals the partition's length")
	verifapi.Assert(out[3] == 0x9d && out[4] == 0x01 && out[5] == 0x2a, "start code")
	verifapi.Assert(int(out[6])|int(out[7])<<8 == enc.width && int(out[8])|int(out[9])<<8 == enc.height, "14-bit dimensions, scale 0")
	pos := 10 + len0
	if len0 > 0 {
		verifapi.Assert(out[10] == part0[0] && out[pos-1] == part0[len0-1], "first partition follows the header")
	}
	sizes := pos
	pos += 3 * (nparts - 1)
	for i := 0; i < nparts; i++ {
		n := len(parts[i])
		if i < nparts-1 {
			sz := int(out[sizes+3*i]) | int(out[sizes+3*i+1])<<8 | int(out[sizes+3*i+2])<<16
			verifapi.Assert(sz == n, "token-partition size field equals the partition's length")
		}
		if n > 0 {
			verifapi.Assert(out[pos] == parts[i][0] && out[pos+n-1] == parts[i][n-1], "token partitions follow back to back")
		}
		pos += n
	}
	verifapi.Assert(pos == len(out), "nothing else in the frame")
	verifapi.Cover(true, "checked")
}

// ---- partition size limits (emitFrame) ----

var vLimLen0, vLimLenA, vLimParts int

func vStubPartition0(enc *VP8Encoder) []byte {
	b := make([]byte, vLimLen0)
	if vLimLen0 > 0 {
		b[0], b[vLimLen0-1] = verifapi.U8("p0"), verifapi.U8("p0")
	}
	return b
}

func vStubTokenPartitions(enc *VP8Encoder) [][]byte {
	var parts [][]byte
	for i := 0; i < vLimParts; i++ {
		n := 3
		if i == 0 {
			n = vLimLenA
		}
		parts = append(parts, make([]byte, n))
	}
	return parts
}

// VerifH_C02_EmitFrameLimits: emitFrame either returns an error or a frame whose size fields hold the
// true partition sizes: the first partition's size must fit the 19 bits of the frame tag and every token
// partition but the last the 24 bits of its table entry (the partition writers are stubs returning
// buffers of the given lengths).
func VerifH_C02_EmitFrameLimits(len0, lenA, nparts int) {
	enc := &VP8Encoder{width: int(verifapi.U16("w")&0x3fff) | 1, height: int(verifapi.U16("h")&0x3fff) | 1}
	vLimLen0, vLimLenA, vLimParts = len0, lenA, nparts
	out, err := enc.emitFrame()
	if err != nil {
		verifapi.Cover(true, "oversized partition refused")
		verifapi.Assert(len0 >= 1<<19 || (nparts > 1 && lenA >= 1<<24), "an error only when a size does not fit its field")
		return
	}
	verifapi.Cover(true, "frame emitted")
	tag := uint32(out[0]) | uint32(out[1])<<8 | uint32(out[2])<<16
	verifapi.Assert(int(tag>>5) == len0, "first-partition length field equals the partition's length")
	if nparts > 1 {
		p := 10 + len0
		sz := int(out[p]) | int(out[p+1])<<8 | int(out[p+2])<<16
		verifapi.Assert(sz == lenA, "token-partition size field equals the partition's length")
	}
	total := 10 + len0 + 3*(nparts-1) + lenA + 3*(nparts-1)
	verifapi.Assert(len(out) == total, "frame length is header + partitions")
}
