package vp8l

import (
	"image"
	"io"
)

// Shims of ours (not part of x/image) exporting the unexported kernels to the harnesses.

// VerifInverse applies one inverse transform of the reference decoder.
func VerifInverse(ttype uint32, oldWidth int32, bits uint32, tpix []byte, pix []byte, h int32) []byte {
	t := &transform{transformType: ttype, oldWidth: oldWidth, bits: bits, pix: tpix}
	return inverseTransforms[ttype](t, pix, h)
}

// Byte kernels of the reference decoder.
func VerifAvg2(a, b uint8) uint8                     { return avg2(a, b) }
func VerifClampAddSubtractFull(a, b, c uint8) uint8  { return clampAddSubtractFull(a, b, c) }
func VerifClampAddSubtractHalf(a, b uint8) uint8     { return clampAddSubtractHalf(a, b) }

// VerifSelect is the reference decoder's inline Select (transform.go, case 11) as a function of the
// L, T and TL pixels in (R,G,B,A) byte order; it returns the chosen predictor bytes.
func VerifSelect(lp, tp, cp [4]uint8) [4]uint8 {
	l0, l1, l2, l3 := int32(lp[0]), int32(lp[1]), int32(lp[2]), int32(lp[3])
	c0, c1, c2, c3 := int32(cp[0]), int32(cp[1]), int32(cp[2]), int32(cp[3])
	t0, t1, t2, t3 := int32(tp[0]), int32(tp[1]), int32(tp[2]), int32(tp[3])
	l := abs(c0-t0) + abs(c1-t1) + abs(c2-t2) + abs(c3-t3)
	t := abs(c0-l0) + abs(c1-l1) + abs(c2-l2) + abs(c3-l3)
	if l < t {
		return lp
	}
	return tp
}

// vBytes is a minimal io.ByteReader over a byte slice (ours).
type vBytes struct {
	b []byte
	i int
}

func (r *vBytes) ReadByte() (byte, error) {
	if r.i >= len(r.b) {
		return 0, io.EOF
	}
	c := r.b[r.i]
	r.i++
	return c, nil
}

func (r *vBytes) Read(p []byte) (int, error) {
	if r.i >= len(r.b) {
		return 0, io.EOF
	}
	n := copy(p, r.b[r.i:])
	r.i += n
	return n, nil
}

// VerifDecodeBytes runs the reference decoder on a complete VP8L stream.
func VerifDecodeBytes(data []byte) (pix []byte, w, h int, err error) {
	img, err := Decode(&vBytes{b: data})
	if err != nil {
		return nil, 0, 0, err
	}
	n := img.(*image.NRGBA)
	return n.Pix, n.Rect.Dx(), n.Rect.Dy(), nil
}
