// Copyright 2011 The Go Authors. All rights reserved.
// Use of this source code is governed by a BSD-style
// license that can be found in the LICENSE file.

package vp8

// This file implements parsing the quantization factors.

// quant are DC/AC quantization factors.
type quant struct {
	y1 [2]uint16
	y2 [2]uint16
	uv [2]uint16
}

// clip clips x to the range [min, max] inclusive.
func clip(x, min, max int32) int32 {
	if x < min {
		return min
	}
	if x > max {
		return max
	}
	return x
}

// parseQuant parses the quantization factors, as specified in section 9.6.
func (d *Decoder) parseQuant() {
	baseQ0 := d.fp.readUint(uniformProb, 7)
	dqy1DC := d.fp.readOptionalInt(uniformProb, 4)
	const dqy1AC = 0
	dqy2DC := d.fp.readOptionalInt(uniformProb, 4)
	dqy2AC := d.fp.readOptionalInt(uniformProb, 4)
	dquvDC := d.fp.readOptionalInt(uniformProb, 4)
	dquvAC := d.fp.readOptionalInt(uniformProb, 4)
	for i := 0; i < nSegment; i++ {
		q := int32(baseQ0)
		if d.segmentHeader.useSegment {
			if d.segmentHeader.relativeDelta {
				q += int32(d.segmentHeader.quantizer[i])
			} else {
				q = int32(d.segmentHeader.quantizer[i])
			}
		}
		d.quant[i].y1[0] = dequantTableDC[clip(q+dqy1DC, 0, 127)]
		d.quant[i].y1[1] = dequantTableAC[clip(q+dqy1AC, 0, 127)]
		d.quant[i].y2[0] = dequantTableDC[clip(q+dqy2DC, 0, 127)] * 2
		d.quant[i].y2[1] = dequantTableAC[clip(q+dqy2AC, 0, 127)] * 155 / 100
		if d.quant[i].y2[1] < 8 {
			d.quant[i].y2[1] = 8
		}
		// The 117 is not a typo. The dequant_init function in the spec's Reference
		// Decoder Source Code (http://tools.ietf.org/html/rfc6386#section-9.6 Page 145)
		// says to clamp the LHS value at 132, which is equal to dequantTableDC[117].
		d.quant[i].uv[0] = dequantTableDC[clip(q+dquvDC, 0, 117)]
		d.quant[i].uv[1] = dequantTableAC[clip(q+dquvAC, 0, 127)]
	}
}

// The dequantization tables are specified in section 14.1.
var (
	dequantTableDC = [128]uint16{
		4, 5, 6, 7, 8, 9, 10, 10,
		11, 12, 13, 14, 15, 16, 17, 17,
		18, 19, 20, 20, 21, 21, 22, 22,
		23, 23, 24, 25, 25, 26, 27, 28,
		29, 30, 31, 32, 33, 34, 35, 36,
		37, 37, 38, 39, 40, 41, 42, 43,
		44, 45, 46, 46, 47, 48, 49, 50,
		51, 52, 53, 54, 55, 56, 57, 58,
		59, 60, 61, 62, 63, 64, 65, 66,
		67, 68, 69, 70, 71, 72, 73, 74,
		75, 76, 76, 77, 78, 79, 80, 81,
		82, 83, 84, 85, 86, 87, 88, 89,
		91, 93, 95, 96, 98, 100, 101, 102,
		104, 106, 108, 110, 112, 114, 116, 118,
		122, 124, 126, 128, 130, 132, 134, 136,
		138, 140, 143, 145, 148, 151, 154, 157,
	}
	dequantTableAC = [128]uint16{
		4, 5, 6, 7, 8, 9, 10, 11,
		12, 13, 14, 15, 16, 17, 18, 19,
		20, 21, 22, 23, 24, 25, 26, 27,
		28, 29, 30, 31, 32, 33, 34, 35,
		36, 37, 38, 39, 40, 41, 42, 43,
		44, 45, 46, 47, 48, 49, 50, 51,
		52, 53, 54, 55, 56, 57, 58, 60,
		62, 64, 66, 68, 70, 72, 74, 76,
		78, 80, 82, 84, 86, 88, 90, 92,
		94, 96, 98, 100, 102, 104, 106, 108,
		110, 112, 114, 116, 119, 122, 125, 128,
		131, 134, 137, 140, 143, 146, 149, 152,
		155, 158, 161, 164, 167, 170, 173, 177,
		181, 185, 189, 193, 197, 201, 205, 209,
		213, 217, 221, 225, 229, 234, 239, 245,
		249, 254, 259, 264, 269, 274, 279, 284,
	}
)
