package vp8

import "image"

// Shims of ours (not part of x/image) exporting the unexported kernels of the reference decoder.

// VerifIDCT4 adds the inverse DCT of coeffs (position k = column + 4*row) to the 4x4 block pred.
func VerifIDCT4(coeffs [16]int16, pred [16]uint8, dcOnly bool) [16]uint8 {
	z := &Decoder{}
	for i, c := range coeffs {
		z.coeff[i] = c
	}
	for j := 0; j < 4; j++ {
		for i := 0; i < 4; i++ {
			z.ybr[j][i] = pred[4*j+i]
		}
	}
	if dcOnly {
		z.inverseDCT4DCOnly(0, 0, 0)
	} else {
		z.inverseDCT4(0, 0, 0)
	}
	var out [16]uint8
	for j := 0; j < 4; j++ {
		for i := 0; i < 4; i++ {
			out[4*j+i] = z.ybr[j][i]
		}
	}
	return out
}

// VerifWHT16 is the inverse Walsh-Hadamard transform: 16 inputs -> the DC of the 16 luma blocks.
func VerifWHT16(in [16]int16) [16]int16 {
	d := &Decoder{}
	for i, c := range in {
		d.coeff[384+i] = c
	}
	d.inverseWHT16()
	var out [16]int16
	for i := range out {
		out[i] = d.coeff[16*i]
	}
	return out
}

// VerifFilter2 / VerifFilter246: the reference loop-filter kernels applied to ONE line of 8 pixels
// (p3 p2 p1 p0 | q0 q1 q2 q3) across the edge between index 3 and 4.
func VerifFilter2(px [8]uint8, level int) [8]uint8 {
	buf := make([]byte, 16*8) // filter2 always walks 16 lines; lines 1..15 are zero and stay untouched
	copy(buf, px[:])
	filter2(buf, level, 4, 8, 1)
	var out [8]uint8
	copy(out[:], buf[:8])
	return out
}

func VerifFilter246(px [8]uint8, level, ilevel, hlevel int, fourNotSix bool) [8]uint8 {
	buf := append([]byte(nil), px[:]...)
	filter246(buf, 1, level, ilevel, hlevel, 4, 8, 1, fourNotSix)
	var out [8]uint8
	copy(out[:], buf)
	return out
}

// VerifDequant: the per-segment dequantisation factors of the reference decoder for quantiser index q
// and the five frame-level deltas (the body of parseQuant's loop, with its tables and its clip).
func VerifDequant(q, dqy1DC, dqy2DC, dqy2AC, dquvDC, dquvAC int32) [6]uint16 {
	const dqy1AC = 0
	var r [6]uint16
	r[0] = dequantTableDC[clip(q+dqy1DC, 0, 127)]
	r[1] = dequantTableAC[clip(q+dqy1AC, 0, 127)]
	r[2] = dequantTableDC[clip(q+dqy2DC, 0, 127)] * 2
	r[3] = dequantTableAC[clip(q+dqy2AC, 0, 127)] * 155 / 100
	if r[3] < 8 {
		r[3] = 8
	}
	r[4] = dequantTableDC[clip(q+dquvDC, 0, 117)]
	r[5] = dequantTableAC[clip(q+dquvAC, 0, 127)]
	return r
}

// VerifFilterParams runs the reference decoder's computeFilterParams for the given header values and
// returns, per segment and per (outer,inner), level/ilevel/hlevel/inner.
func VerifFilterParams(level int8, sharpness uint8, useLFDelta bool, ref0, mode0 int8, useSegment, relative bool, segStrength [4]int8) (out [4][2][4]int) {
	d := &Decoder{}
	d.frameHeader.KeyFrame = true
	d.filterHeader.level, d.filterHeader.sharpness, d.filterHeader.useLFDelta = level, sharpness, useLFDelta
	d.filterHeader.refLFDelta[0], d.filterHeader.modeLFDelta[0] = ref0, mode0
	d.segmentHeader.useSegment, d.segmentHeader.relativeDelta = useSegment, relative
	d.segmentHeader.filterStrength = segStrength
	d.computeFilterParams()
	for i := range d.filterParams {
		for j := range d.filterParams[i] {
			p := d.filterParams[i][j]
			in := 0
			if p.inner {
				in = 1
			}
			out[i][j] = [4]int{int(p.level), int(p.ilevel), int(p.hlevel), in}
		}
	}
	return
}

// VerifPredict runs one reference intra predictor on a block of size n (4, 8 or 16) whose border is
// given: tl = top-left sample, top = n samples above (n+4 for 4x4: the top-right overhang), left = n
// samples to the left. mode is the reference's mode number (predDC.. predDCTopLeft).
func VerifPredict(n int, mode int, tl uint8, top []uint8, left []uint8) []uint8 {
	z := &Decoder{}
	y, x := 1, 8
	z.ybr[y-1][x-1] = tl
	for i, v := range top {
		z.ybr[y-1][x+i] = v
	}
	for j, v := range left {
		z.ybr[y+j][x-1] = v
	}
	switch n {
	case 4:
		predFunc4[mode](z, y, x)
	case 8:
		predFunc8[mode](z, y, x)
	case 16:
		predFunc16[mode](z, y, x)
	}
	out := make([]uint8, n*n)
	for j := 0; j < n; j++ {
		for i := 0; i < n; i++ {
			out[j*n+i] = z.ybr[y+j][x+i]
		}
	}
	return out
}

// VerifReconstructRow reconstructs macroblock row mby (0 or 1) of a picture mbw macroblocks wide with
// ALL residuals zero, i.e. the pure prediction chain with the reference decoder's workspace handling
// (prepareYBR + reconstructMacroblock). topY/topCb/topCr are the bottom sample rows of the row above
// (used when mby > 0); i4[x] says whether macroblock x uses 4x4 prediction, modes[x] holds its luma
// modes (one for 16x16), cmode[x] its chroma mode. Returns the 16 luma rows and 8+8 chroma rows.
func VerifReconstructRow(mbw, mby int, topY, topCb, topCr []uint8, i4 []bool, modes [][16]uint8, cmode []uint8) (Y, Cb, Cr []uint8) {
	d := &Decoder{}
	d.mbw, d.mbh = mbw, 2
	d.img = image.NewYCbCr(image.Rect(0, 0, 16*mbw, 32), image.YCbCrSubsampleRatio420)
	if mby > 0 {
		copy(d.img.Y[(16*mby-1)*d.img.YStride:], topY)
		copy(d.img.Cb[(8*mby-1)*d.img.CStride:], topCb)
		copy(d.img.Cr[(8*mby-1)*d.img.CStride:], topCr)
	}
	for mbx := 0; mbx < mbw; mbx++ {
		d.prepareYBR(mbx, mby)
		d.usePredY16 = !i4[mbx]
		if d.usePredY16 {
			d.predY16 = modes[mbx][0]
		} else {
			for j := 0; j < 4; j++ {
				for i := 0; i < 4; i++ {
					d.predY4[j][i] = modes[mbx][4*j+i]
				}
			}
		}
		d.predC8 = cmode[mbx]
		d.nzDCMask, d.nzACMask = 0, 0
		d.reconstructMacroblock(mbx, mby)
		for i, y := (mby*d.img.YStride+mbx)*16, 0; y < 16; i, y = i+d.img.YStride, y+1 {
			copy(d.img.Y[i:i+16], d.ybr[ybrYY+y][ybrYX:ybrYX+16])
		}
		for i, y := (mby*d.img.CStride+mbx)*8, 0; y < 8; i, y = i+d.img.CStride, y+1 {
			copy(d.img.Cb[i:i+8], d.ybr[ybrBY+y][ybrBX:ybrBX+8])
			copy(d.img.Cr[i:i+8], d.ybr[ybrRY+y][ybrRX:ybrRX+8])
		}
	}
	Y = d.img.Y[16*mby*d.img.YStride : 16*(mby+1)*d.img.YStride]
	Cb = d.img.Cb[8*mby*d.img.CStride : 8*(mby+1)*d.img.CStride]
	Cr = d.img.Cr[8*mby*d.img.CStride : 8*(mby+1)*d.img.CStride]
	return
}
