// Copyright 2014 The Go Authors. All rights reserved.
// Use of this source code is governed by a BSD-style
// license that can be found in the LICENSE file.

package vp8

// filter2 modifies a 2-pixel wide or 2-pixel high band along an edge.
func filter2(pix []byte, level, index, iStep, jStep int) {
	for n := 16; n > 0; n, index = n-1, index+iStep {
		p1 := int(pix[index-2*jStep])
		p0 := int(pix[index-1*jStep])
		q0 := int(pix[index+0*jStep])
		q1 := int(pix[index+1*jStep])
		if abs(p0-q0)<<1+abs(p1-q1)>>1 > level {
			continue
		}
		a := 3*(q0-p0) + clamp127(p1-q1)
		a1 := clamp15((a + 4) >> 3)
		a2 := clamp15((a + 3) >> 3)
		pix[index-1*jStep] = clamp255(p0 + a2)
		pix[index+0*jStep] = clamp255(q0 - a1)
	}
}

// filter246 modifies a 2-, 4- or 6-pixel wide or high band along an edge.
func filter246(pix []byte, n, level, ilevel, hlevel, index, iStep, jStep int, fourNotSix bool) {
	for ; n > 0; n, index = n-1, index+iStep {
		p3 := int(pix[index-4*jStep])
		p2 := int(pix[index-3*jStep])
		p1 := int(pix[index-2*jStep])
		p0 := int(pix[index-1*jStep])
		q0 := int(pix[index+0*jStep])
		q1 := int(pix[index+1*jStep])
		q2 := int(pix[index+2*jStep])
		q3 := int(pix[index+3*jStep])
		if abs(p0-q0)<<1+abs(p1-q1)>>1 > level {
			continue
		}
		if abs(p3-p2) > ilevel ||
			abs(p2-p1) > ilevel ||
			abs(p1-p0) > ilevel ||
			abs(q1-q0) > ilevel ||
			abs(q2-q1) > ilevel ||
			abs(q3-q2) > ilevel {
			continue
		}
		if abs(p1-p0) > hlevel || abs(q1-q0) > hlevel {
			// Filter 2 pixels.
			a := 3*(q0-p0) + clamp127(p1-q1)
			a1 := clamp15((a + 4) >> 3)
			a2 := clamp15((a + 3) >> 3)
			pix[index-1*jStep] = clamp255(p0 + a2)
			pix[index+0*jStep] = clamp255(q0 - a1)
		} else if fourNotSix {
			// Filter 4 pixels.
			a := 3 * (q0 - p0)
			a1 := clamp15((a + 4) >> 3)
			a2 := clamp15((a + 3) >> 3)
			a3 := (a1 + 1) >> 1
			pix[index-2*jStep] = clamp255(p1 + a3)
			pix[index-1*jStep] = clamp255(p0 + a2)
			pix[index+0*jStep] = clamp255(q0 - a1)
			pix[index+1*jStep] = clamp255(q1 - a3)
		} else {
			// Filter 6 pixels.
			a := clamp127(3*(q0-p0) + clamp127(p1-q1))
			a1 := (27*a + 63) >> 7
			a2 := (18*a + 63) >> 7
			a3 := (9*a + 63) >> 7
			pix[index-3*jStep] = clamp255(p2 + a3)
			pix[index-2*jStep] = clamp255(p1 + a2)
			pix[index-1*jStep] = clamp255(p0 + a1)
			pix[index+0*jStep] = clamp255(q0 - a1)
			pix[index+1*jStep] = clamp255(q1 - a2)
			pix[index+2*jStep] = clamp255(q2 - a3)
		}
	}
}

// simpleFilter implements the simple filter, as specified in section 15.2.
func (d *Decoder) simpleFilter() {
	for mby := 0; mby < d.mbh; mby++ {
		for mbx := 0; mbx < d.mbw; mbx++ {
			f := d.perMBFilterParams[d.mbw*mby+mbx]
			if f.level == 0 {
				continue
			}
			l := int(f.level)
			yIndex := (mby*d.img.YStride + mbx) * 16
			if mbx > 0 {
				filter2(d.img.Y, l+4, yIndex, d.img.YStride, 1)
			}
			if f.inner {
				filter2(d.img.Y, l, yIndex+0x4, d.img.YStride, 1)
				filter2(d.img.Y, l, yIndex+0x8, d.img.YStride, 1)
				filter2(d.img.Y, l, yIndex+0xc, d.img.YStride, 1)
			}
			if mby > 0 {
				filter2(d.img.Y, l+4, yIndex, 1, d.img.YStride)
			}
			if f.inner {
				filter2(d.img.Y, l, yIndex+d.img.YStride*0x4, 1, d.img.YStride)
				filter2(d.img.Y, l, yIndex+d.img.YStride*0x8, 1, d.img.YStride)
				filter2(d.img.Y, l, yIndex+d.img.YStride*0xc, 1, d.img.YStride)
			}
		}
	}
}

// normalFilter implements the normal filter, as specified in section 15.3.
func (d *Decoder) normalFilter() {
	for mby := 0; mby < d.mbh; mby++ {
		for mbx := 0; mbx < d.mbw; mbx++ {
			f := d.perMBFilterParams[d.mbw*mby+mbx]
			if f.level == 0 {
				continue
			}
			l, il, hl := int(f.level), int(f.ilevel), int(f.hlevel)
			yIndex := (mby*d.img.YStride + mbx) * 16
			cIndex := (mby*d.img.CStride + mbx) * 8
			if mbx > 0 {
				filter246(d.img.Y, 16, l+4, il, hl, yIndex, d.img.YStride, 1, false)
				filter246(d.img.Cb, 8, l+4, il, hl, cIndex, d.img.CStride, 1, false)
				filter246(d.img.Cr, 8, l+4, il, hl, cIndex, d.img.CStride, 1, false)
			}
			if f.inner {
				filter246(d.img.Y, 16, l, il, hl, yIndex+0x4, d.img.YStride, 1, true)
				filter246(d.img.Y, 16, l, il, hl, yIndex+0x8, d.img.YStride, 1, true)
				filter246(d.img.Y, 16, l, il, hl, yIndex+0xc, d.img.YStride, 1, true)
				filter246(d.img.Cb, 8, l, il, hl, cIndex+0x4, d.img.CStride, 1, true)
				filter246(d.img.Cr, 8, l, il, hl, cIndex+0x4, d.img.CStride, 1, true)
			}
			if mby > 0 {
				filter246(d.img.Y, 16, l+4, il, hl, yIndex, 1, d.img.YStride, false)
				filter246(d.img.Cb, 8, l+4, il, hl, cIndex, 1, d.img.CStride, false)
				filter246(d.img.Cr, 8, l+4, il, hl, cIndex, 1, d.img.CStride, false)
			}
			if f.inner {
				filter246(d.img.Y, 16, l, il, hl, yIndex+d.img.YStride*0x4, 1, d.img.YStride, true)
				filter246(d.img.Y, 16, l, il, hl, yIndex+d.img.YStride*0x8, 1, d.img.YStride, true)
				filter246(d.img.Y, 16, l, il, hl, yIndex+d.img.YStride*0xc, 1, d.img.YStride, true)
				filter246(d.img.Cb, 8, l, il, hl, cIndex+d.img.CStride*0x4, 1, d.img.CStride, true)
				filter246(d.img.Cr, 8, l, il, hl, cIndex+d.img.CStride*0x4, 1, d.img.CStride, true)
			}
		}
	}
}

// filterParam holds the loop filter parameters for a macroblock.
type filterParam struct {
	// The first three fields are thresholds used by the loop filter to smooth
	// over the edges and interior of a macroblock. level is used by both the
	// simple and normal filters. The inner level and high edge variance level
	// are only used by the normal filter.
	level, ilevel, hlevel uint8
	// inner is whether the inner loop filter cannot be optimized out as a
	// no-op for this particular macroblock.
	inner bool
}

// computeFilterParams computes the loop filter parameters, as specified in
// section 15.4.
func (d *Decoder) computeFilterParams() {
	for i := range d.filterParams {
		baseLevel := d.filterHeader.level
		if d.segmentHeader.useSegment {
			baseLevel = d.segmentHeader.filterStrength[i]
			if d.segmentHeader.relativeDelta {
				baseLevel += d.filterHeader.level
			}
		}

		for j := range d.filterParams[i] {
			p := &d.filterParams[i][j]
			p.inner = j != 0
			level := baseLevel
			if d.filterHeader.useLFDelta {
				// The libwebp C code has a "TODO: only CURRENT is handled for now."
				level += d.filterHeader.refLFDelta[0]
				if j != 0 {
					level += d.filterHeader.modeLFDelta[0]
				}
			}
			if level <= 0 {
				p.level = 0
				continue
			}
			if level > 63 {
				level = 63
			}
			ilevel := level
			if d.filterHeader.sharpness > 0 {
				if d.filterHeader.sharpness > 4 {
					ilevel >>= 2
				} else {
					ilevel >>= 1
				}
				if x := int8(9 - d.filterHeader.sharpness); ilevel > x {
					ilevel = x
				}
			}
			if ilevel < 1 {
				ilevel = 1
			}
			p.ilevel = uint8(ilevel)
			p.level = uint8(2*level + ilevel)
			if d.frameHeader.KeyFrame {
				if level < 15 {
					p.hlevel = 0
				} else if level < 40 {
					p.hlevel = 1
				} else {
					p.hlevel = 2
				}
			} else {
				if level < 15 {
					p.hlevel = 0
				} else if level < 20 {
					p.hlevel = 1
				} else if level < 40 {
					p.hlevel = 2
				} else {
					p.hlevel = 3
				}
			}
		}
	}
}

// intSize is either 32 or 64.
const intSize = 32 << (^uint(0) >> 63)

func abs(x int) int {
	// m := -1 if x < 0. m := 0 otherwise.
	m := x >> (intSize - 1)

	// In two's complement representation, the negative number
	// of any number (except the smallest one) can be computed
	// by flipping all the bits and add 1. This is faster than
	// code with a branch.
	// See Hacker's Delight, section 2-4.
	return (x ^ m) - m
}

func clamp15(x int) int {
	if x < -16 {
		return -16
	}
	if x > 15 {
		return 15
	}
	return x
}

func clamp127(x int) int {
	if x < -128 {
		return -128
	}
	if x > 127 {
		return 127
	}
	return x
}

func clamp255(x int) uint8 {
	if x < 0 {
		return 0
	}
	if x > 255 {
		return 255
	}
	return uint8(x)
}
