// Copyright 2011 The Go Authors. All rights reserved.
// Use of this source code is governed by a BSD-style
// license that can be found in the LICENSE file.

package vp8

// Each VP8 frame consists of between 2 and 9 bitstream partitions.
// Each partition is byte-aligned and is independently arithmetic-encoded.
//
// This file implements decoding a partition's bitstream, as specified in
// chapter 7. The implementation follows libwebp's approach instead of the
// specification's reference C implementation. For example, we use a look-up
// table instead of a for loop to recalibrate the encoded range.

var (
	lutShift = [127]uint8{
		7, 6, 6, 5, 5, 5, 5, 4, 4, 4, 4, 4, 4, 4, 4,
		3, 3, 3, 3, 3, 3, 3, 3, 3, 3, 3, 3, 3, 3, 3, 3,
		2, 2, 2, 2, 2, 2, 2, 2, 2, 2, 2, 2, 2, 2, 2, 2,
		2, 2, 2, 2, 2, 2, 2, 2, 2, 2, 2, 2, 2, 2, 2, 2,
		1, 1, 1, 1, 1, 1, 1, 1, 1, 1, 1, 1, 1, 1, 1, 1,
		1, 1, 1, 1, 1, 1, 1, 1, 1, 1, 1, 1, 1, 1, 1, 1,
		1, 1, 1, 1, 1, 1, 1, 1, 1, 1, 1, 1, 1, 1, 1, 1,
		1, 1, 1, 1, 1, 1, 1, 1, 1, 1, 1, 1, 1, 1, 1, 1,
	}
	lutRangeM1 = [127]uint8{
		127,
		127, 191,
		127, 159, 191, 223,
		127, 143, 159, 175, 191, 207, 223, 239,
		127, 135, 143, 151, 159, 167, 175, 183, 191, 199, 207, 215, 223, 231, 239, 247,
		127, 131, 135, 139, 143, 147, 151, 155, 159, 163, 167, 171, 175, 179, 183, 187,
		191, 195, 199, 203, 207, 211, 215, 219, 223, 227, 231, 235, 239, 243, 247, 251,
		127, 129, 131, 133, 135, 137, 139, 141, 143, 145, 147, 149, 151, 153, 155, 157,
		159, 161, 163, 165, 167, 169, 171, 173, 175, 177, 179, 181, 183, 185, 187, 189,
		191, 193, 195, 197, 199, 201, 203, 205, 207, 209, 211, 213, 215, 217, 219, 221,
		223, 225, 227, 229, 231, 233, 235, 237, 239, 241, 243, 245, 247, 249, 251, 253,
	}
)

// uniformProb represents a 50% probability that the next bit is 0.
const uniformProb = 128

// partition holds arithmetic-coded bits.
type partition struct {
	// buf is the input bytes.
	buf []byte
	// r is how many of buf's bytes have been consumed.
	r int
	// rangeM1 is range minus 1, where range is in the arithmetic coding sense,
	// not the Go language sense.
	rangeM1 uint32
	// bits and nBits hold those bits shifted out of buf but not yet consumed.
	bits  uint32
	nBits uint8
	// unexpectedEOF tells whether we tried to read past buf.
	unexpectedEOF bool
}

// init initializes the partition.
func (p *partition) init(buf []byte) {
	p.buf = buf
	p.r = 0
	p.rangeM1 = 254
	p.bits = 0
	p.nBits = 0
	p.unexpectedEOF = false
}

// readBit returns the next bit.
func (p *partition) readBit(prob uint8) bool {
	if p.nBits < 8 {
		if p.r >= len(p.buf) {
			p.unexpectedEOF = true
			return false
		}
		// Expression split for 386 compiler.
		x := uint32(p.buf[p.r])
		p.bits |= x << (8 - p.nBits)
		p.r++
		p.nBits += 8
	}
	split := (p.rangeM1*uint32(prob))>>8 + 1
	bit := p.bits >= split<<8
	if bit {
		p.rangeM1 -= split
		p.bits -= split << 8
	} else {
		p.rangeM1 = split - 1
	}
	if p.rangeM1 < 127 {
		shift := lutShift[p.rangeM1]
		p.rangeM1 = uint32(lutRangeM1[p.rangeM1])
		p.bits <<= shift
		p.nBits -= shift
	}
	return bit
}

// readUint returns the next n-bit unsigned integer.
func (p *partition) readUint(prob, n uint8) uint32 {
	var u uint32
	for n > 0 {
		n--
		if p.readBit(prob) {
			u |= 1 << n
		}
	}
	return u
}

// readInt returns the next n-bit signed integer.
func (p *partition) readInt(prob, n uint8) int32 {
	u := p.readUint(prob, n)
	b := p.readBit(prob)
	if b {
		return -int32(u)
	}
	return int32(u)
}

// readOptionalInt returns the next n-bit signed integer in an encoding
// where the likely result is zero.
func (p *partition) readOptionalInt(prob, n uint8) int32 {
	if !p.readBit(prob) {
		return 0
	}
	return p.readInt(prob, n)
}
