// Copyright 2011 The Go Authors. All rights reserved.
// Use of this source code is governed by a BSD-style
// license that can be found in the LICENSE file.

// Package vp8 implements a decoder for the VP8 lossy image format.
//
// The VP8 specification is RFC 6386.
package vp8 // import "golang.org/x/image/vp8"

// This file implements the top-level decoding algorithm.

import (
	"errors"
	"image"
	"io"
)

// limitReader wraps an io.Reader to read at most n bytes from it.
type limitReader struct {
	r io.Reader
	n int
}

// ReadFull reads exactly len(p) bytes into p.
func (r *limitReader) ReadFull(p []byte) error {
	if len(p) > r.n {
		return io.ErrUnexpectedEOF
	}
	n, err := io.ReadFull(r.r, p)
	r.n -= n
	return err
}

// FrameHeader is a frame header, as specified in section 9.1.
type FrameHeader struct {
	KeyFrame          bool
	VersionNumber     uint8
	ShowFrame         bool
	FirstPartitionLen uint32
	Width             int
	Height            int
	XScale            uint8
	YScale            uint8
}

const (
	nSegment     = 4
	nSegmentProb = 3
)

// segmentHeader holds segment-related header information.
type segmentHeader struct {
	useSegment     bool
	updateMap      bool
	relativeDelta  bool
	quantizer      [nSegment]int8
	filterStrength [nSegment]int8
	prob           [nSegmentProb]uint8
}

const (
	nRefLFDelta  = 4
	nModeLFDelta = 4
)

// filterHeader holds filter-related header information.
type filterHeader struct {
	simple          bool
	level           int8
	sharpness       uint8
	useLFDelta      bool
	refLFDelta      [nRefLFDelta]int8
	modeLFDelta     [nModeLFDelta]int8
	perSegmentLevel [nSegment]int8
}

// mb is the per-macroblock decode state. A decoder maintains mbw+1 of these
// as it is decoding macroblocks left-to-right and top-to-bottom: mbw for the
// macroblocks in the row above, and one for the macroblock to the left.
type mb struct {
	// pred is the predictor mode for the 4 bottom or right 4x4 luma regions.
	pred [4]uint8
	// nzMask is a mask of 8 bits: 4 for the bottom or right 4x4 luma regions,
	// and 2 + 2 for the bottom or right 4x4 chroma regions. A 1 bit indicates
	// that region has non-zero coefficients.
	nzMask uint8
	// nzY16 is a 0/1 value that is 1 if the macroblock used Y16 prediction and
	// had non-zero coefficients.
	nzY16 uint8
}

// Decoder decodes VP8 bitstreams into frames. Decoding one frame consists of
// calling Init, DecodeFrameHeader and then DecodeFrame in that order.
// A Decoder can be re-used to decode multiple frames.
type Decoder struct {
	// r is the input bitsream.
	r limitReader
	// scratch is a scratch buffer.
	scratch [8]byte
	// img is the YCbCr image to decode into.
	img *image.YCbCr
	// mbw and mbh are the number of 16x16 macroblocks wide and high the image is.
	mbw, mbh int
	// frameHeader is the frame header. When decoding multiple frames,
	// frames that aren't key frames will inherit the Width, Height,
	// XScale and YScale of the most recent key frame.
	frameHeader FrameHeader
	// Other headers.
	segmentHeader segmentHeader
	filterHeader  filterHeader
	// The image data is divided into a number of independent partitions.
	// There is 1 "first partition" and between 1 and 8 "other partitions"
	// for coefficient data.
	fp  partition
	op  [8]partition
	nOP int
	// Quantization factors.
	quant [nSegment]quant
	// DCT/WHT coefficient decoding probabilities.
	tokenProb   [nPlane][nBand][nContext][nProb]uint8
	useSkipProb bool
	skipProb    uint8
	// Loop filter parameters.
	filterParams      [nSegment][2]filterParam
	perMBFilterParams []filterParam

	// The eight fields below relate to the current macroblock being decoded.
	//
	// Segment-based adjustments.
	segment int
	// Per-macroblock state for the macroblock immediately left of and those
	// macroblocks immediately above the current macroblock.
	leftMB mb
	upMB   []mb
	// Bitmasks for which 4x4 regions of coeff contain non-zero coefficients.
	nzDCMask, nzACMask uint32
	// Predictor modes.
	usePredY16 bool // The libwebp C code calls this !is_i4x4_.
	predY16    uint8
	predC8     uint8
	predY4     [4][4]uint8

	// The two fields below form a workspace for reconstructing a macroblock.
	// Their specific sizes are documented in reconstruct.go.
	coeff [1*16*16 + 2*8*8 + 1*4*4]int16
	ybr   [1 + 16 + 1 + 8][32]uint8
}

// NewDecoder returns a new Decoder.
func NewDecoder() *Decoder {
	return &Decoder{}
}

// Init initializes the decoder to read at most n bytes from r.
func (d *Decoder) Init(r io.Reader, n int) {
	d.r = limitReader{r, n}
}

// DecodeFrameHeader decodes the frame header.
func (d *Decoder) DecodeFrameHeader() (fh FrameHeader, err error) {
	// All frame headers are at least 3 bytes long.
	b := d.scratch[:3]
	if err = d.r.ReadFull(b); err != nil {
		return
	}
	d.frameHeader.KeyFrame = (b[0] & 1) == 0
	d.frameHeader.VersionNumber = (b[0] >> 1) & 7
	d.frameHeader.ShowFrame = (b[0]>>4)&1 == 1
	d.frameHeader.FirstPartitionLen = uint32(b[0])>>5 | uint32(b[1])<<3 | uint32(b[2])<<11
	if !d.frameHeader.KeyFrame {
		return d.frameHeader, nil
	}
	// Frame headers for key frames are an additional 7 bytes long.
	b = d.scratch[:7]
	if err = d.r.ReadFull(b); err != nil {
		return
	}
	// Check the magic sync code.
	if b[0] != 0x9d || b[1] != 0x01 || b[2] != 0x2a {
		err = errors.New("vp8: invalid format")
		return
	}
	d.frameHeader.Width = int(b[4]&0x3f)<<8 | int(b[3])
	d.frameHeader.Height = int(b[6]&0x3f)<<8 | int(b[5])
	d.frameHeader.XScale = b[4] >> 6
	d.frameHeader.YScale = b[6] >> 6
	d.mbw = (d.frameHeader.Width + 0x0f) >> 4
	d.mbh = (d.frameHeader.Height + 0x0f) >> 4
	d.segmentHeader = segmentHeader{
		prob: [3]uint8{0xff, 0xff, 0xff},
	}
	d.tokenProb = defaultTokenProb
	d.segment = 0
	return d.frameHeader, nil
}

// ensureImg ensures that d.img is large enough to hold the decoded frame.
func (d *Decoder) ensureImg() {
	if d.img != nil {
		p0, p1 := d.img.Rect.Min, d.img.Rect.Max
		if p0.X == 0 && p0.Y == 0 && p1.X >= 16*d.mbw && p1.Y >= 16*d.mbh {
			return
		}
	}
	m := image.NewYCbCr(image.Rect(0, 0, 16*d.mbw, 16*d.mbh), image.YCbCrSubsampleRatio420)
	d.img = m.SubImage(image.Rect(0, 0, d.frameHeader.Width, d.frameHeader.Height)).(*image.YCbCr)
	d.perMBFilterParams = make([]filterParam, d.mbw*d.mbh)
	d.upMB = make([]mb, d.mbw)
}

// parseSegmentHeader parses the segment header, as specified in section 9.3.
func (d *Decoder) parseSegmentHeader() {
	d.segmentHeader.useSegment = d.fp.readBit(uniformProb)
	if !d.segmentHeader.useSegment {
		d.segmentHeader.updateMap = false
		return
	}
	d.segmentHeader.updateMap = d.fp.readBit(uniformProb)
	if d.fp.readBit(uniformProb) {
		d.segmentHeader.relativeDelta = !d.fp.readBit(uniformProb)
		for i := range d.segmentHeader.quantizer {
			d.segmentHeader.quantizer[i] = int8(d.fp.readOptionalInt(uniformProb, 7))
		}
		for i := range d.segmentHeader.filterStrength {
			d.segmentHeader.filterStrength[i] = int8(d.fp.readOptionalInt(uniformProb, 6))
		}
	}
	if !d.segmentHeader.updateMap {
		return
	}
	for i := range d.segmentHeader.prob {
		if d.fp.readBit(uniformProb) {
			d.segmentHeader.prob[i] = uint8(d.fp.readUint(uniformProb, 8))
		} else {
			d.segmentHeader.prob[i] = 0xff
		}
	}
}

// parseFilterHeader parses the filter header, as specified in section 9.4.
func (d *Decoder) parseFilterHeader() {
	d.filterHeader.simple = d.fp.readBit(uniformProb)
	d.filterHeader.level = int8(d.fp.readUint(uniformProb, 6))
	d.filterHeader.sharpness = uint8(d.fp.readUint(uniformProb, 3))
	d.filterHeader.useLFDelta = d.fp.readBit(uniformProb)
	if d.filterHeader.useLFDelta && d.fp.readBit(uniformProb) {
		for i := range d.filterHeader.refLFDelta {
			d.filterHeader.refLFDelta[i] = int8(d.fp.readOptionalInt(uniformProb, 6))
		}
		for i := range d.filterHeader.modeLFDelta {
			d.filterHeader.modeLFDelta[i] = int8(d.fp.readOptionalInt(uniformProb, 6))
		}
	}
	if d.filterHeader.level == 0 {
		return
	}
	if d.segmentHeader.useSegment {
		for i := range d.filterHeader.perSegmentLevel {
			strength := d.segmentHeader.filterStrength[i]
			if d.segmentHeader.relativeDelta {
				strength += d.filterHeader.level
			}
			d.filterHeader.perSegmentLevel[i] = strength
		}
	} else {
		d.filterHeader.perSegmentLevel[0] = d.filterHeader.level
	}
	d.computeFilterParams()
}

// parseOtherPartitions parses the other partitions, as specified in section 9.5.
func (d *Decoder) parseOtherPartitions() error {
	const maxNOP = 1 << 3
	var partLens [maxNOP]int
	d.nOP = 1 << d.fp.readUint(uniformProb, 2)

	// The final partition length is implied by the remaining chunk data
	// (d.r.n) and the other d.nOP-1 partition lengths. Those d.nOP-1 partition
	// lengths are stored as 24-bit uints, i.e. up to 16 MiB per partition.
	n := 3 * (d.nOP - 1)
	partLens[d.nOP-1] = d.r.n - n
	if partLens[d.nOP-1] < 0 {
		return io.ErrUnexpectedEOF
	}
	if n > 0 {
		buf := make([]byte, n)
		if err := d.r.ReadFull(buf); err != nil {
			return err
		}
		for i := 0; i < d.nOP-1; i++ {
			pl := int(buf[3*i+0]) | int(buf[3*i+1])<<8 | int(buf[3*i+2])<<16
			if pl > partLens[d.nOP-1] {
				return io.ErrUnexpectedEOF
			}
			partLens[i] = pl
			partLens[d.nOP-1] -= pl
		}
	}

	// We check if the final partition length can also fit into a 24-bit uint.
	// Strictly speaking, this isn't part of the spec, but it guards against a
	// malicious WEBP image that is too large to ReadFull the encoded DCT
	// coefficients into memory, whether that's because the actual WEBP file is
	// too large, or whether its RIFF metadata lists too large a chunk.
	if 1<<24 <= partLens[d.nOP-1] {
		return errors.New("vp8: too much data to decode")
	}

	buf := make([]byte, d.r.n)
	if err := d.r.ReadFull(buf); err != nil {
		return err
	}
	for i, pl := range partLens {
		if i == d.nOP {
			break
		}
		d.op[i].init(buf[:pl])
		buf = buf[pl:]
	}
	return nil
}

// parseOtherHeaders parses header information other than the frame header.
func (d *Decoder) parseOtherHeaders() error {
	// Initialize and parse the first partition.
	firstPartition := make([]byte, d.frameHeader.FirstPartitionLen)
	if err := d.r.ReadFull(firstPartition); err != nil {
		return err
	}
	d.fp.init(firstPartition)
	if d.frameHeader.KeyFrame {
		// Read and ignore the color space and pixel clamp values. They are
		// specified in section 9.2, but are unimplemented.
		d.fp.readBit(uniformProb)
		d.fp.readBit(uniformProb)
	}
	d.parseSegmentHeader()
	d.parseFilterHeader()
	if err := d.parseOtherPartitions(); err != nil {
		return err
	}
	d.parseQuant()
	if !d.frameHeader.KeyFrame {
		// Golden and AltRef frames are specified in section 9.7.
		// TODO(nigeltao): implement. Note that they are only used for video, not still images.
		return errors.New("vp8: Golden / AltRef frames are not implemented")
	}
	// Read and ignore the refreshLastFrameBuffer bit, specified in section 9.8.
	// It applies only to video, and not still images.
	d.fp.readBit(uniformProb)
	d.parseTokenProb()
	d.useSkipProb = d.fp.readBit(uniformProb)
	if d.useSkipProb {
		d.skipProb = uint8(d.fp.readUint(uniformProb, 8))
	}
	if d.fp.unexpectedEOF {
		return io.ErrUnexpectedEOF
	}
	return nil
}

// DecodeFrame decodes the frame and returns it as an YCbCr image.
// The image's contents are valid up until the next call to Decoder.Init.
func (d *Decoder) DecodeFrame() (*image.YCbCr, error) {
	d.ensureImg()
	if err := d.parseOtherHeaders(); err != nil {
		return nil, err
	}
	// Reconstruct the rows.
	for mbx := 0; mbx < d.mbw; mbx++ {
		d.upMB[mbx] = mb{}
	}
	for mby := 0; mby < d.mbh; mby++ {
		d.leftMB = mb{}
		for mbx := 0; mbx < d.mbw; mbx++ {
			skip := d.reconstruct(mbx, mby)
			fs := d.filterParams[d.segment][btou(!d.usePredY16)]
			fs.inner = fs.inner || !skip
			d.perMBFilterParams[d.mbw*mby+mbx] = fs
		}
	}
	if d.fp.unexpectedEOF {
		return nil, io.ErrUnexpectedEOF
	}
	for i := 0; i < d.nOP; i++ {
		if d.op[i].unexpectedEOF {
			return nil, io.ErrUnexpectedEOF
		}
	}
	// Apply the loop filter.
	//
	// Even if we are using per-segment levels, section 15 says that "loop
	// filtering must be skipped entirely if loop_filter_level at either the
	// frame header level or macroblock override level is 0".
	if d.filterHeader.level != 0 {
		if d.filterHeader.simple {
			d.simpleFilter()
		} else {
			d.normalFilter()
		}
	}
	return d.img, nil
}
