// Copyright 2011 The Go Authors. All rights reserved.
// Use of this source code is governed by a BSD-style
// license that can be found in the LICENSE file.

package vp8

// This file implements the inverse Discrete Cosine Transform and the inverse
// Walsh Hadamard Transform (WHT), as specified in sections 14.3 and 14.4.

func clip8(i int32) uint8 {
	if i < 0 {
		return 0
	}
	if i > 255 {
		return 255
	}
	return uint8(i)
}

func (z *Decoder) inverseDCT4(y, x, coeffBase int) {
	const (
		c1 = 85627 // 65536 * cos(pi/8) * sqrt(2).
		c2 = 35468 // 65536 * sin(pi/8) * sqrt(2).
	)
	var m [4][4]int32
	for i := 0; i < 4; i++ {
		a := int32(z.coeff[coeffBase+0]) + int32(z.coeff[coeffBase+8])
		b := int32(z.coeff[coeffBase+0]) - int32(z.coeff[coeffBase+8])
		c := (int32(z.coeff[coeffBase+4])*c2)>>16 - (int32(z.coeff[coeffBase+12])*c1)>>16
		d := (int32(z.coeff[coeffBase+4])*c1)>>16 + (int32(z.coeff[coeffBase+12])*c2)>>16
		m[i][0] = a + d
		m[i][1] = b + c
		m[i][2] = b - c
		m[i][3] = a - d
		coeffBase++
	}
	for j := 0; j < 4; j++ {
		dc := m[0][j] + 4
		a := dc + m[2][j]
		b := dc - m[2][j]
		c := (m[1][j]*c2)>>16 - (m[3][j]*c1)>>16
		d := (m[1][j]*c1)>>16 + (m[3][j]*c2)>>16
		z.ybr[y+j][x+0] = clip8(int32(z.ybr[y+j][x+0]) + (a+d)>>3)
		z.ybr[y+j][x+1] = clip8(int32(z.ybr[y+j][x+1]) + (b+c)>>3)
		z.ybr[y+j][x+2] = clip8(int32(z.ybr[y+j][x+2]) + (b-c)>>3)
		z.ybr[y+j][x+3] = clip8(int32(z.ybr[y+j][x+3]) + (a-d)>>3)
	}
}

func (z *Decoder) inverseDCT4DCOnly(y, x, coeffBase int) {
	dc := (int32(z.coeff[coeffBase+0]) + 4) >> 3
	for j := 0; j < 4; j++ {
		for i := 0; i < 4; i++ {
			z.ybr[y+j][x+i] = clip8(int32(z.ybr[y+j][x+i]) + dc)
		}
	}
}

func (z *Decoder) inverseDCT8(y, x, coeffBase int) {
	z.inverseDCT4(y+0, x+0, coeffBase+0*16)
	z.inverseDCT4(y+0, x+4, coeffBase+1*16)
	z.inverseDCT4(y+4, x+0, coeffBase+2*16)
	z.inverseDCT4(y+4, x+4, coeffBase+3*16)
}

func (z *Decoder) inverseDCT8DCOnly(y, x, coeffBase int) {
	z.inverseDCT4DCOnly(y+0, x+0, coeffBase+0*16)
	z.inverseDCT4DCOnly(y+0, x+4, coeffBase+1*16)
	z.inverseDCT4DCOnly(y+4, x+0, coeffBase+2*16)
	z.inverseDCT4DCOnly(y+4, x+4, coeffBase+3*16)
}

func (d *Decoder) inverseWHT16() {
	var m [16]int32
	for i := 0; i < 4; i++ {
		a0 := int32(d.coeff[384+0+i]) + int32(d.coeff[384+12+i])
		a1 := int32(d.coeff[384+4+i]) + int32(d.coeff[384+8+i])
		a2 := int32(d.coeff[384+4+i]) - int32(d.coeff[384+8+i])
		a3 := int32(d.coeff[384+0+i]) - int32(d.coeff[384+12+i])
		m[0+i] = a0 + a1
		m[8+i] = a0 - a1
		m[4+i] = a3 + a2
		m[12+i] = a3 - a2
	}
	out := 0
	for i := 0; i < 4; i++ {
		dc := m[0+i*4] + 3
		a0 := dc + m[3+i*4]
		a1 := m[1+i*4] + m[2+i*4]
		a2 := m[1+i*4] - m[2+i*4]
		a3 := dc - m[3+i*4]
		d.coeff[out+0] = int16((a0 + a1) >> 3)
		d.coeff[out+16] = int16((a3 + a2) >> 3)
		d.coeff[out+32] = int16((a0 - a1) >> 3)
		d.coeff[out+48] = int16((a3 - a2) >> 3)
		out += 64
	}
}
