// Copyright 2011 The Go Authors. All rights reserved.
// Use of this source code is governed by a BSD-style
// license that can be found in the LICENSE file.

package vp8

// This file implements the predicition functions, as specified in chapter 12.
//
// For each macroblock (of 1x16x16 luma and 2x8x8 chroma coefficients), the
// luma values are either predicted as one large 16x16 region or 16 separate
// 4x4 regions. The chroma values are always predicted as one 8x8 region.
//
// For 4x4 regions, the target block's predicted values (Xs) are a function of
// its previously-decoded top and left border values, as well as a number of
// pixels from the top-right:
//
//	a b c d e f g h
//	p X X X X
//	q X X X X
//	r X X X X
//	s X X X X
//
// The predictor modes are:
//	- DC: all Xs = (b + c + d + e + p + q + r + s + 4) / 8.
//	- TM: the first X = (b + p - a), the second X = (c + p - a), and so on.
//	- VE: each X = the weighted average of its column's top value and that
//	      value's neighbors, i.e. averages of abc, bcd, cde or def.
//	- HE: similar to VE except rows instead of columns, and the final row is
//	      an average of r, s and s.
//	- RD, VR, LD, VL, HD, HU: these diagonal modes ("Right Down", "Vertical
//	      Right", etc) are more complicated and are described in section 12.3.
// All Xs are clipped to the range [0, 255].
//
// For 8x8 and 16x16 regions, the target block's predicted values are a
// function of the top and left border values without the top-right overhang,
// i.e. without the 8x8 or 16x16 equivalent of f, g and h. Furthermore:
//	- There are no diagonal predictor modes, only DC, TM, VE and HE.
//	- The DC mode has variants for macroblocks in the top row and/or left
//	  column, i.e. for macroblocks with mby == 0 || mbx == 0.
//	- The VE and HE modes take only the column top or row left values; they do
//	  not smooth that top/left value with its neighbors.

// nPred is the number of predictor modes, not including the Top/Left versions
// of the DC predictor mode.
const nPred = 10

const (
	predDC = iota
	predTM
	predVE
	predHE
	predRD
	predVR
	predLD
	predVL
	predHD
	predHU
	predDCTop
	predDCLeft
	predDCTopLeft
)

func checkTopLeftPred(mbx, mby int, p uint8) uint8 {
	if p != predDC {
		return p
	}
	if mbx == 0 {
		if mby == 0 {
			return predDCTopLeft
		}
		return predDCLeft
	}
	if mby == 0 {
		return predDCTop
	}
	return predDC
}

var predFunc4 = [...]func(*Decoder, int, int){
	predFunc4DC,
	predFunc4TM,
	predFunc4VE,
	predFunc4HE,
	predFunc4RD,
	predFunc4VR,
	predFunc4LD,
	predFunc4VL,
	predFunc4HD,
	predFunc4HU,
	nil,
	nil,
	nil,
}

var predFunc8 = [...]func(*Decoder, int, int){
	predFunc8DC,
	predFunc8TM,
	predFunc8VE,
	predFunc8HE,
	nil,
	nil,
	nil,
	nil,
	nil,
	nil,
	predFunc8DCTop,
	predFunc8DCLeft,
	predFunc8DCTopLeft,
}

var predFunc16 = [...]func(*Decoder, int, int){
	predFunc16DC,
	predFunc16TM,
	predFunc16VE,
	predFunc16HE,
	nil,
	nil,
	nil,
	nil,
	nil,
	nil,
	predFunc16DCTop,
	predFunc16DCLeft,
	predFunc16DCTopLeft,
}

func predFunc4DC(z *Decoder, y, x int) {
	sum := uint32(4)
	for i := 0; i < 4; i++ {
		sum += uint32(z.ybr[y-1][x+i])
	}
	for j := 0; j < 4; j++ {
		sum += uint32(z.ybr[y+j][x-1])
	}
	avg := uint8(sum / 8)
	for j := 0; j < 4; j++ {
		for i := 0; i < 4; i++ {
			z.ybr[y+j][x+i] = avg
		}
	}
}

func predFunc4TM(z *Decoder, y, x int) {
	delta0 := -int32(z.ybr[y-1][x-1])
	for j := 0; j < 4; j++ {
		delta1 := delta0 + int32(z.ybr[y+j][x-1])
		for i := 0; i < 4; i++ {
			delta2 := delta1 + int32(z.ybr[y-1][x+i])
			z.ybr[y+j][x+i] = uint8(clip(delta2, 0, 255))
		}
	}
}

func predFunc4VE(z *Decoder, y, x int) {
	a := int32(z.ybr[y-1][x-1])
	b := int32(z.ybr[y-1][x+0])
	c := int32(z.ybr[y-1][x+1])
	d := int32(z.ybr[y-1][x+2])
	e := int32(z.ybr[y-1][x+3])
	f := int32(z.ybr[y-1][x+4])
	abc := uint8((a + 2*b + c + 2) / 4)
	bcd := uint8((b + 2*c + d + 2) / 4)
	cde := uint8((c + 2*d + e + 2) / 4)
	def := uint8((d + 2*e + f + 2) / 4)
	for j := 0; j < 4; j++ {
		z.ybr[y+j][x+0] = abc
		z.ybr[y+j][x+1] = bcd
		z.ybr[y+j][x+2] = cde
		z.ybr[y+j][x+3] = def
	}
}

func predFunc4HE(z *Decoder, y, x int) {
	s := int32(z.ybr[y+3][x-1])
	r := int32(z.ybr[y+2][x-1])
	q := int32(z.ybr[y+1][x-1])
	p := int32(z.ybr[y+0][x-1])
	a := int32(z.ybr[y-1][x-1])
	ssr := uint8((s + 2*s + r + 2) / 4)
	srq := uint8((s + 2*r + q + 2) / 4)
	rqp := uint8((r + 2*q + p + 2) / 4)
	apq := uint8((a + 2*p + q + 2) / 4)
	for i := 0; i < 4; i++ {
		z.ybr[y+0][x+i] = apq
		z.ybr[y+1][x+i] = rqp
		z.ybr[y+2][x+i] = srq
		z.ybr[y+3][x+i] = ssr
	}
}

func predFunc4RD(z *Decoder, y, x int) {
	s := int32(z.ybr[y+3][x-1])
	r := int32(z.ybr[y+2][x-1])
	q := int32(z.ybr[y+1][x-1])
	p := int32(z.ybr[y+0][x-1])
	a := int32(z.ybr[y-1][x-1])
	b := int32(z.ybr[y-1][x+0])
	c := int32(z.ybr[y-1][x+1])
	d := int32(z.ybr[y-1][x+2])
	e := int32(z.ybr[y-1][x+3])
	srq := uint8((s + 2*r + q + 2) / 4)
	rqp := uint8((r + 2*q + p + 2) / 4)
	qpa := uint8((q + 2*p + a + 2) / 4)
	pab := uint8((p + 2*a + b + 2) / 4)
	abc := uint8((a + 2*b + c + 2) / 4)
	bcd := uint8((b + 2*c + d + 2) / 4)
	cde := uint8((c + 2*d + e + 2) / 4)
	z.ybr[y+0][x+0] = pab
	z.ybr[y+0][x+1] = abc
	z.ybr[y+0][x+2] = bcd
	z.ybr[y+0][x+3] = cde
	z.ybr[y+1][x+0] = qpa
	z.ybr[y+1][x+1] = pab
	z.ybr[y+1][x+2] = abc
	z.ybr[y+1][x+3] = bcd
	z.ybr[y+2][x+0] = rqp
	z.ybr[y+2][x+1] = qpa
	z.ybr[y+2][x+2] = pab
	z.ybr[y+2][x+3] = abc
	z.ybr[y+3][x+0] = srq
	z.ybr[y+3][x+1] = rqp
	z.ybr[y+3][x+2] = qpa
	z.ybr[y+3][x+3] = pab
}

func predFunc4VR(z *Decoder, y, x int) {
	r := int32(z.ybr[y+2][x-1])
	q := int32(z.ybr[y+1][x-1])
	p := int32(z.ybr[y+0][x-1])
	a := int32(z.ybr[y-1][x-1])
	b := int32(z.ybr[y-1][x+0])
	c := int32(z.ybr[y-1][x+1])
	d := int32(z.ybr[y-1][x+2])
	e := int32(z.ybr[y-1][x+3])
	ab := uint8((a + b + 1) / 2)
	bc := uint8((b + c + 1) / 2)
	cd := uint8((c + d + 1) / 2)
	de := uint8((d + e + 1) / 2)
	rqp := uint8((r + 2*q + p + 2) / 4)
	qpa := uint8((q + 2*p + a + 2) / 4)
	pab := uint8((p + 2*a + b + 2) / 4)
	abc := uint8((a + 2*b + c + 2) / 4)
	bcd := uint8((b + 2*c + d + 2) / 4)
	cde := uint8((c + 2*d + e + 2) / 4)
	z.ybr[y+0][x+0] = ab
	z.ybr[y+0][x+1] = bc
	z.ybr[y+0][x+2] = cd
	z.ybr[y+0][x+3] = de
	z.ybr[y+1][x+0] = pab
	z.ybr[y+1][x+1] = abc
	z.ybr[y+1][x+2] = bcd
	z.ybr[y+1][x+3] = cde
	z.ybr[y+2][x+0] = qpa
	z.ybr[y+2][x+1] = ab
	z.ybr[y+2][x+2] = bc
	z.ybr[y+2][x+3] = cd
	z.ybr[y+3][x+0] = rqp
	z.ybr[y+3][x+1] = pab
	z.ybr[y+3][x+2] = abc
	z.ybr[y+3][x+3] = bcd
}

func predFunc4LD(z *Decoder, y, x int) {
	a := int32(z.ybr[y-1][x+0])
	b := int32(z.ybr[y-1][x+1])
	c := int32(z.ybr[y-1][x+2])
	d := int32(z.ybr[y-1][x+3])
	e := int32(z.ybr[y-1][x+4])
	f := int32(z.ybr[y-1][x+5])
	g := int32(z.ybr[y-1][x+6])
	h := int32(z.ybr[y-1][x+7])
	abc := uint8((a + 2*b + c + 2) / 4)
	bcd := uint8((b + 2*c + d + 2) / 4)
	cde := uint8((c + 2*d + e + 2) / 4)
	def := uint8((d + 2*e + f + 2) / 4)
	efg := uint8((e + 2*f + g + 2) / 4)
	fgh := uint8((f + 2*g + h + 2) / 4)
	ghh := uint8((g + 2*h + h + 2) / 4)
	z.ybr[y+0][x+0] = abc
	z.ybr[y+0][x+1] = bcd
	z.ybr[y+0][x+2] = cde
	z.ybr[y+0][x+3] = def
	z.ybr[y+1][x+0] = bcd
	z.ybr[y+1][x+1] = cde
	z.ybr[y+1][x+2] = def
	z.ybr[y+1][x+3] = efg
	z.ybr[y+2][x+0] = cde
	z.ybr[y+2][x+1] = def
	z.ybr[y+2][x+2] = efg
	z.ybr[y+2][x+3] = fgh
	z.ybr[y+3][x+0] = def
	z.ybr[y+3][x+1] = efg
	z.ybr[y+3][x+2] = fgh
	z.ybr[y+3][x+3] = ghh
}

func predFunc4VL(z *Decoder, y, x int) {
	a := int32(z.ybr[y-1][x+0])
	b := int32(z.ybr[y-1][x+1])
	c := int32(z.ybr[y-1][x+2])
	d := int32(z.ybr[y-1][x+3])
	e := int32(z.ybr[y-1][x+4])
	f := int32(z.ybr[y-1][x+5])
	g := int32(z.ybr[y-1][x+6])
	h := int32(z.ybr[y-1][x+7])
	ab := uint8((a + b + 1) / 2)
	bc := uint8((b + c + 1) / 2)
	cd := uint8((c + d + 1) / 2)
	de := uint8((d + e + 1) / 2)
	abc := uint8((a + 2*b + c + 2) / 4)
	bcd := uint8((b + 2*c + d + 2) / 4)
	cde := uint8((c + 2*d + e + 2) / 4)
	def := uint8((d + 2*e + f + 2) / 4)
	efg := uint8((e + 2*f + g + 2) / 4)
	fgh := uint8((f + 2*g + h + 2) / 4)
	z.ybr[y+0][x+0] = ab
	z.ybr[y+0][x+1] = bc
	z.ybr[y+0][x+2] = cd
	z.ybr[y+0][x+3] = de
	z.ybr[y+1][x+0] = abc
	z.ybr[y+1][x+1] = bcd
	z.ybr[y+1][x+2] = cde
	z.ybr[y+1][x+3] = def
	z.ybr[y+2][x+0] = bc
	z.ybr[y+2][x+1] = cd
	z.ybr[y+2][x+2] = de
	z.ybr[y+2][x+3] = efg
	z.ybr[y+3][x+0] = bcd
	z.ybr[y+3][x+1] = cde
	z.ybr[y+3][x+2] = def
	z.ybr[y+3][x+3] = fgh
}

func predFunc4HD(z *Decoder, y, x int) {
	s := int32(z.ybr[y+3][x-1])
	r := int32(z.ybr[y+2][x-1])
	q := int32(z.ybr[y+1][x-1])
	p := int32(z.ybr[y+0][x-1])
	a := int32(z.ybr[y-1][x-1])
	b := int32(z.ybr[y-1][x+0])
	c := int32(z.ybr[y-1][x+1])
	d := int32(z.ybr[y-1][x+2])
	sr := uint8((s + r + 1) / 2)
	rq := uint8((r + q + 1) / 2)
	qp := uint8((q + p + 1) / 2)
	pa := uint8((p + a + 1) / 2)
	srq := uint8((s + 2*r + q + 2) / 4)
	rqp := uint8((r + 2*q + p + 2) / 4)
	qpa := uint8((q + 2*p + a + 2) / 4)
	pab := uint8((p + 2*a + b + 2) / 4)
	abc := uint8((a + 2*b + c + 2) / 4)
	bcd := uint8((b + 2*c + d + 2) / 4)
	z.ybr[y+0][x+0] = pa
	z.ybr[y+0][x+1] = pab
	z.ybr[y+0][x+2] = abc
	z.ybr[y+0][x+3] = bcd
	z.ybr[y+1][x+0] = qp
	z.ybr[y+1][x+1] = qpa
	z.ybr[y+1][x+2] = pa
	z.ybr[y+1][x+3] = pab
	z.ybr[y+2][x+0] = rq
	z.ybr[y+2][x+1] = rqp
	z.ybr[y+2][x+2] = qp
	z.ybr[y+2][x+3] = qpa
	z.ybr[y+3][x+0] = sr
	z.ybr[y+3][x+1] = srq
	z.ybr[y+3][x+2] = rq
	z.ybr[y+3][x+3] = rqp
}

func predFunc4HU(z *Decoder, y, x int) {
	s := int32(z.ybr[y+3][x-1])
	r := int32(z.ybr[y+2][x-1])
	q := int32(z.ybr[y+1][x-1])
	p := int32(z.ybr[y+0][x-1])
	pq := uint8((p + q + 1) / 2)
	qr := uint8((q + r + 1) / 2)
	rs := uint8((r + s + 1) / 2)
	pqr := uint8((p + 2*q + r + 2) / 4)
	qrs := uint8((q + 2*r + s + 2) / 4)
	rss := uint8((r + 2*s + s + 2) / 4)
	sss := uint8(s)
	z.ybr[y+0][x+0] = pq
	z.ybr[y+0][x+1] = pqr
	z.ybr[y+0][x+2] = qr
	z.ybr[y+0][x+3] = qrs
	z.ybr[y+1][x+0] = qr
	z.ybr[y+1][x+1] = qrs
	z.ybr[y+1][x+2] = rs
	z.ybr[y+1][x+3] = rss
	z.ybr[y+2][x+0] = rs
	z.ybr[y+2][x+1] = rss
	z.ybr[y+2][x+2] = sss
	z.ybr[y+2][x+3] = sss
	z.ybr[y+3][x+0] = sss
	z.ybr[y+3][x+1] = sss
	z.ybr[y+3][x+2] = sss
	z.ybr[y+3][x+3] = sss
}

func predFunc8DC(z *Decoder, y, x int) {
	sum := uint32(8)
	for i := 0; i < 8; i++ {
		sum += uint32(z.ybr[y-1][x+i])
	}
	for j := 0; j < 8; j++ {
		sum += uint32(z.ybr[y+j][x-1])
	}
	avg := uint8(sum / 16)
	for j := 0; j < 8; j++ {
		for i := 0; i < 8; i++ {
			z.ybr[y+j][x+i] = avg
		}
	}
}

func predFunc8TM(z *Decoder, y, x int) {
	delta0 := -int32(z.ybr[y-1][x-1])
	for j := 0; j < 8; j++ {
		delta1 := delta0 + int32(z.ybr[y+j][x-1])
		for i := 0; i < 8; i++ {
			delta2 := delta1 + int32(z.ybr[y-1][x+i])
			z.ybr[y+j][x+i] = uint8(clip(delta2, 0, 255))
		}
	}
}

func predFunc8VE(z *Decoder, y, x int) {
	for j := 0; j < 8; j++ {
		for i := 0; i < 8; i++ {
			z.ybr[y+j][x+i] = z.ybr[y-1][x+i]
		}
	}
}

func predFunc8HE(z *Decoder, y, x int) {
	for j := 0; j < 8; j++ {
		for i := 0; i < 8; i++ {
			z.ybr[y+j][x+i] = z.ybr[y+j][x-1]
		}
	}
}

func predFunc8DCTop(z *Decoder, y, x int) {
	sum := uint32(4)
	for j := 0; j < 8; j++ {
		sum += uint32(z.ybr[y+j][x-1])
	}
	avg := uint8(sum / 8)
	for j := 0; j < 8; j++ {
		for i := 0; i < 8; i++ {
			z.ybr[y+j][x+i] = avg
		}
	}
}

func predFunc8DCLeft(z *Decoder, y, x int) {
	sum := uint32(4)
	for i := 0; i < 8; i++ {
		sum += uint32(z.ybr[y-1][x+i])
	}
	avg := uint8(sum / 8)
	for j := 0; j < 8; j++ {
		for i := 0; i < 8; i++ {
			z.ybr[y+j][x+i] = avg
		}
	}
}

func predFunc8DCTopLeft(z *Decoder, y, x int) {
	for j := 0; j < 8; j++ {
		for i := 0; i < 8; i++ {
			z.ybr[y+j][x+i] = 0x80
		}
	}
}

func predFunc16DC(z *Decoder, y, x int) {
	sum := uint32(16)
	for i := 0; i < 16; i++ {
		sum += uint32(z.ybr[y-1][x+i])
	}
	for j := 0; j < 16; j++ {
		sum += uint32(z.ybr[y+j][x-1])
	}
	avg := uint8(sum / 32)
	for j := 0; j < 16; j++ {
		for i := 0; i < 16; i++ {
			z.ybr[y+j][x+i] = avg
		}
	}
}

func predFunc16TM(z *Decoder, y, x int) {
	delta0 := -int32(z.ybr[y-1][x-1])
	for j := 0; j < 16; j++ {
		delta1 := delta0 + int32(z.ybr[y+j][x-1])
		for i := 0; i < 16; i++ {
			delta2 := delta1 + int32(z.ybr[y-1][x+i])
			z.ybr[y+j][x+i] = uint8(clip(delta2, 0, 255))
		}
	}
}

func predFunc16VE(z *Decoder, y, x int) {
	for j := 0; j < 16; j++ {
		for i := 0; i < 16; i++ {
			z.ybr[y+j][x+i] = z.ybr[y-1][x+i]
		}
	}
}

func predFunc16HE(z *Decoder, y, x int) {
	for j := 0; j < 16; j++ {
		for i := 0; i < 16; i++ {
			z.ybr[y+j][x+i] = z.ybr[y+j][x-1]
		}
	}
}

func predFunc16DCTop(z *Decoder, y, x int) {
	sum := uint32(8)
	for j := 0; j < 16; j++ {
		sum += uint32(z.ybr[y+j][x-1])
	}
	avg := uint8(sum / 16)
	for j := 0; j < 16; j++ {
		for i := 0; i < 16; i++ {
			z.ybr[y+j][x+i] = avg
		}
	}
}

func predFunc16DCLeft(z *Decoder, y, x int) {
	sum := uint32(8)
	for i := 0; i < 16; i++ {
		sum += uint32(z.ybr[y-1][x+i])
	}
	avg := uint8(sum / 16)
	for j := 0; j < 16; j++ {
		for i := 0; i < 16; i++ {
			z.ybr[y+j][x+i] = avg
		}
	}
}

func predFunc16DCTopLeft(z *Decoder, y, x int) {
	for j := 0; j < 16; j++ {
		for i := 0; i < 16; i++ {
			z.ybr[y+j][x+i] = 0x80
		}
	}
}
