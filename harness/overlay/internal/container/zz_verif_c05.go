package container

import "github.com/deepteams/webp/internal/verifapi"

// VerifH_C05_Parser: container.NewParser never panics on any byte string of length n and
// what it returns is well-formed (positive dims, payload slices inside the input).
func VerifH_C05_Parser(n int) {
	data := verifapi.Bytes("d", n)
	verifapi.Bound("input bytes", n)
	p, err := NewParser(data)
	if err != nil {
		return
	}
	verifapi.Cover(true, "parser accepts some input")
	f := p.Features()
	verifapi.Assert(f.Width > 0 && f.Height > 0, "accepted file has positive dimensions")
	verifapi.Assert(f.Width <= 1<<24 && f.Height <= 1<<24, "dimensions within the 24-bit container limit")
	for _, fr := range p.Frames() {
		verifapi.Assert(len(fr.Payload) <= n && len(fr.AlphaData) <= n, "frame payloads no larger than the input")
		verifapi.Assert(fr.Width > 0 && fr.Height > 0, "frame has positive dimensions")
	}
	for _, c := range p.Chunks() {
		verifapi.Assert(len(c.Payload) <= n, "chunk payload no larger than the input")
	}
}
