package dsp

import "github.com/deepteams/webp/internal/verifapi"

// VerifH_C13_Random: one step of the dithering PRNG equals a reference model written in explicit
// 64-bit arithmetic (VP8RandomBits2 of libwebp: 31-bit table entries, difference taken modulo 2^31,
// sign-extended 0-centred and scaled), whatever the width of int.
func VerifH_C13_Random(_ int) {
	var rg VP8Random
	InitRandom(&rg, 1.0)
	a, b := verifapi.U32("tab1")&0x7fffffff, verifapi.U32("tab2")&0x7fffffff
	rg.tab[rg.index1], rg.tab[rg.index2] = a, b
	numBits := int(verifapi.U8("bits")%8) + 1
	amp := int(verifapi.U32("amp") % 257)
	got := RandomBits2(&rg, numBits, amp)
	d := int64(a) - int64(b)
	if d < 0 {
		d += 1 << 31
	}
	stored := uint32(d)
	x := int64(int32(uint32(d)<<1)) >> uint(32-numBits)
	x = (x * int64(amp)) >> vp8RandomDitherFix
	x += 1 << uint(numBits-1)
	verifapi.Assert(int64(got) == x, "RandomBits2 equals the 64-bit reference model")
	i1 := rg.index1 - 1
	if i1 < 0 {
		i1 = vp8RandomTableSize - 1
	}
	verifapi.Assert(rg.tab[i1] == stored, "table entry updated with the 31-bit difference")
	verifapi.Cover(true, "compared")
}
