package dsp

import "github.com/deepteams/webp/internal/verifapi"

// VerifH_C13_Random: one step of the dithering PRNG equals a reference model written in explicit
// 64-bit arithmetic (VP8RandomBits2 of libwebp: 31-bit table entries, difference taken modulo 2^31,
// sign-extended 0-centred and scaled), whatever the width of int.
func VerifH_C13_Random(_ int) {
	var rg VP8Random
	InitRandom(&rg, 1.0)
	a, b := verifapi.U32("tab1")&0x7fffffff, verifapi.U32("tab2")&0x7fffffff
	rg.tab[rg.index1], rg.tab[rg.index2] = a, b
	numBits := int(verifapi.U8("bits")%8) + 1
	amp := int(verifapi.U32("amp") % 257)
	got := RandomBits2(&rg, numBits, amp)
	d := int64(a) - int64(b)
	if d < 0 {
		d += 1 << 31
	}
	stored := uint32(d)
	x := int64(int32(uint32(d)<<1)) >> uint(32-numBits)
	x = (x * int64(amp)) >> vp8RandomDitherFix
	x += 1 << uint(numBits-1)
	verifapi.Assert(int64(got) == x, "RandomBits2 equals the 64-bit reference model")
	i1 := rg.index1 - 1
	if i1 < 0 {
		i1 = vp8RandomTableSize - 1
	}
	verifapi.Assert(rg.tab[i1] == stored, "table entry updated with the 31-bit difference")
	verifapi.Cover(true, "compared")
}

// vRefFTransform: libwebp's FTransform_C (src/dsp/enc.c), transcribed loop form - the reference every
// platform-specific forward DCT has to reproduce bit for bit.
func vRefFTransform(src, ref []byte, out []int16) {
	var tmp [16]int64
	for i := 0; i < 4; i++ {
		d0 := int64(src[i*BPS+0]) - int64(ref[i*BPS+0])
		d1 := int64(src[i*BPS+1]) - int64(ref[i*BPS+1])
		d2 := int64(src[i*BPS+2]) - int64(ref[i*BPS+2])
		d3 := int64(src[i*BPS+3]) - int64(ref[i*BPS+3])
		a0, a1, a2, a3 := d0+d3, d1+d2, d1-d2, d0-d3
		tmp[0+i*4] = (a0 + a1) * 8
		tmp[1+i*4] = (a2*2217 + a3*5352 + 1812) >> 9
		tmp[2+i*4] = (a0 - a1) * 8
		tmp[3+i*4] = (a3*2217 - a2*5352 + 937) >> 9
	}
	for i := 0; i < 4; i++ {
		a0, a1 := tmp[0+i]+tmp[12+i], tmp[4+i]+tmp[8+i]
		a2, a3 := tmp[4+i]-tmp[8+i], tmp[0+i]-tmp[12+i]
		nz := int64(0)
		if a3 != 0 {
			nz = 1
		}
		out[0+i] = int16((a0 + a1 + 7) >> 4)
		out[4+i] = int16(((a2*2217 + a3*5352 + 12000) >> 16) + nz)
		out[8+i] = int16((a0 - a1 + 7) >> 4)
		out[12+i] = int16((a3*2217 - a2*5352 + 51000) >> 16)
	}
}

// VerifH_C13_FTransform: the portable forward DCT and the dispatched one (assembly on amd64/arm64
// in the native replay; the portable one under the engine) equal the reference for all 4x4
// source/prediction blocks.
func VerifH_C13_FTransform(_ int) {
	Init()
	src, ref := make([]byte, 4*BPS), make([]byte, 4*BPS)
	for j := 0; j < 4; j++ {
		for i := 0; i < 4; i++ {
			src[j*BPS+i], ref[j*BPS+i] = verifapi.U8("src"), verifapi.U8("ref")
		}
	}
	var want, got, disp [16]int16
	vRefFTransform(src, ref, want[:])
	fTransform(src, ref, got[:])
	FTransform(src, ref, disp[:])
	for i := range want {
		verifapi.Assert(got[i] == want[i], "portable forward DCT coefficient equals the reference")
		verifapi.Assert(disp[i] == want[i], "dispatched forward DCT coefficient equals the reference")
	}
	verifapi.Cover(true, "compared")
}

// VerifH_C13_TransformCompose: the portable composite inverse transforms used by the decoder equal the
// single-block transform applied to every block they cover - what the assembly versions on amd64/arm64
// compute unconditionally - for all coefficients and destination samples:
//   which 0: TransformUV (2x2 chroma blocks, full IDCT each) vs transformOne on each of the four blocks;
//   which 1: TransformDCUV (DC only) vs TransformDC on each block (a zero DC leaves the block unchanged);
//   which 2: transformTwo with doTwo vs transformOne twice.
func VerifH_C13_TransformCompose(which int) {
	Init()
	in := make([]int16, 64)
	for i := range in {
		in[i] = verifapi.I16("coeff")
	}
	a := make([]byte, 8*BPS)
	for i := range a {
		a[i] = verifapi.U8("dst")
	}
	b := append([]byte(nil), a...)
	switch which {
	case 0:
		TransformUV(in, a)
		transformOne(in[0:], b[0:])
		transformOne(in[16:], b[4:])
		transformOne(in[32:], b[4*BPS:])
		transformOne(in[48:], b[4*BPS+4:])
	case 1:
		for i := range in {
			if i%16 != 0 {
				in[i] = 0 // DC-only blocks
			}
		}
		TransformDCUV(in, a)
		TransformDC(in[0:], b[0:])
		TransformDC(in[16:], b[4:])
		TransformDC(in[32:], b[4*BPS:])
		TransformDC(in[48:], b[4*BPS+4:])
	case 2:
		transformTwo(in, a, true)
		transformOne(in[0:], b[0:])
		transformOne(in[16:], b[4:])
	}
	for i := range a {
		verifapi.Assert(a[i] == b[i], "composite transform = the single-block transform on every block")
	}
	verifapi.Cover(true, "compared")
}
