package dsp

import (
	"github.com/deepteams/webp/internal/verifapi"
	ref "github.com/deepteams/webp/internal/verifref/vp8"
)

// VerifH_C04_IDCT: the decoder's inverse transforms equal the reference decoder's (x/image/vp8,
// written from RFC 6386 section 14) for all coefficient values within the bound and all predictions.
//   which: 0 transformOne (full 4x4 IDCT), 1 transformDC (DC only), 2 transformAC3 (only coefficients
//   0,1,4 non-zero), 3 transformWHT.   bound: coefficients in [-bound, bound].
func VerifH_C04_IDCT(which, bound int) {
	Init()
	var in [16]int16
	for i := range in {
		in[i] = verifapi.I16("coeff")
		verifapi.Assume(int(in[i]) >= -bound && int(in[i]) <= bound)
	}
	if which == 3 {
		out := make([]int16, 16*16)
		TransformWHT(in[:], out)
		want := ref.VerifWHT16(in)
		for i := 0; i < 16; i++ {
			verifapi.Assert(out[16*i] == want[i], "WHT output equals the reference")
		}
		verifapi.Cover(true, "compared")
		return
	}
	var pred [16]uint8
	dst := make([]byte, 4*BPS)
	for j := 0; j < 4; j++ {
		for i := 0; i < 4; i++ {
			pred[4*j+i] = verifapi.U8("pred")
			dst[j*BPS+i] = pred[4*j+i]
		}
	}
	var want [16]uint8
	switch which {
	case 0:
		transformOne(in[:], dst)
		want = ref.VerifIDCT4(in, pred, false)
	case 1:
		for i := 1; i < 16; i++ {
			verifapi.Assume(in[i] == 0)
		}
		TransformDC(in[:], dst)
		want = ref.VerifIDCT4(in, pred, true)
		full := ref.VerifIDCT4(in, pred, false)
		verifapi.Assert(want == full, "reference: DC-only shortcut equals the full transform")
	case 2:
		for i := 0; i < 16; i++ {
			if i != 0 && i != 1 && i != 4 {
				verifapi.Assume(in[i] == 0)
			}
		}
		TransformAC3(in[:], dst)
		want = ref.VerifIDCT4(in, pred, false)
	}
	for j := 0; j < 4; j++ {
		for i := 0; i < 4; i++ {
			verifapi.Assert(dst[j*BPS+i] == want[4*j+i], "reconstructed sample equals the reference")
		}
	}
	verifapi.Cover(true, "compared")
}

// VerifH_C04_Predict: every intra predictor of the decoder equals the reference decoder's predictor
// (x/image/vp8 predfunc.go, written from RFC 6386 chapter 12) for all border samples.
//   n: block size 4 (10 modes, top-right overhang included), 8 (chroma) or 16 (luma); mode: this
//   package's mode index (0 DC, 1 TM, 2 VE, 3 HE; for 4x4: 4 RD, 5 VR, 6 LD, 7 VL, 8 HD, 9 HU; for 8/16:
//   4 DC without top, 5 DC without left, 6 DC without both).
func VerifH_C04_Predict(n, mode int) {
	Init()
	buf := make([]byte, (n+1)*BPS)
	for i := range buf {
		buf[i] = verifapi.U8("residue") // whatever the block area and the rest of the buffer hold
	}
	off := BPS + 8
	ntop := n
	if n == 4 {
		ntop = 8
	}
	tl := buf[off-BPS-1]
	top := make([]uint8, ntop)
	for i := range top {
		top[i] = buf[off-BPS+i]
	}
	left := make([]uint8, n)
	for j := range left {
		left[j] = buf[off-1+j*BPS]
	}
	refMode := mode
	if n != 4 && mode >= 4 {
		refMode = 10 + (mode - 4) // predDCTop, predDCLeft, predDCTopLeft
	}
	want := ref.VerifPredict(n, refMode, tl, top, left)
	switch n {
	case 4:
		PredLuma4Direct(mode, buf, off)
	case 8:
		PredChroma8Direct(mode, buf, off)
	case 16:
		PredLuma16Direct(mode, buf, off)
	}
	for j := 0; j < n; j++ {
		for i := 0; i < n; i++ {
			verifapi.Assert(buf[off+j*BPS+i] == want[j*n+i], "predicted sample equals the reference predictor's")
		}
	}
	verifapi.Cover(true, "compared")
}
