package lossy

// Native replay of a schedule found by the SMT model checker for rowSync.waitFor/signal: the real
// functions run, compiled against the scheduling shims (see internal/verifapi/vsync).

import (
	"encoding/json"
	"fmt"
	"os"
	"testing"
	"time"

	"github.com/deepteams/webp/internal/verifapi/vsync"
)

func TestVerifBMCReplay(t *testing.T) {
	b, err := os.ReadFile(os.Getenv("VERIF_REPLAY"))
	if err != nil {
		t.Fatal(err)
	}
	var rep struct {
		Signals  int   `json:"signals"`
		Needed   []int `json:"needed"`
		Schedule []int `json:"schedule"`
		Kinds    []string `json:"kinds"`
	}
	if err := json.Unmarshal(b, &rep); err != nil {
		t.Fatal(err)
	}
	rs := newRowSync(1)
	vsync.Reset(rep.Schedule, rep.Kinds)
	n := 1 + len(rep.Needed)
	finished := make(chan int, n)
	early := make(chan string, n)
	ready := make(chan struct{}, n)
	start := make(chan struct{})
	go func() {
		vsync.Register(0)
		ready <- struct{}{}
		<-start
		for i := 1; i <= rep.Signals; i++ {
			rs.signal(0, int32(i))
		}
		vsync.Finish()
		finished <- 0
	}()
	for w, need := range rep.Needed {
		go func(w, need int) {
			vsync.Register(1 + w)
			ready <- struct{}{}
			<-start
			rs.waitFor(0, int32(need))
			vsync.Finish() // from here on: observe without scheduling
			if got := rs.rows[0].done.Load(); int(got) < need {
				early <- fmt.Sprintf("waiter %d returned with done=%d < needed=%d", w, got, need)
			}
			finished <- 1 + w
		}(w, need)
	}
	for i := 0; i < n; i++ {
		<-ready
	}
	close(start)
	deadline := time.After(3 * time.Second)
	got := 0
	for got < n {
		select {
		case <-finished:
			got++
		case <-deadline:
			blocked, consumed, diverged := vsync.Blocked()
			if diverged {
				fmt.Println("REPLAY-DIVERGED: the real code did not follow the model's schedule")
				return
			}
			fmt.Printf("REPLAY-VIOLATION: %d of %d goroutines never finish (schedule consumed=%v, blocked threads=%v): deadlock / lost wake-up\n", n-got, n, consumed, blocked)
			return
		}
	}
	select {
	case m := <-early:
		fmt.Println("REPLAY-VIOLATION:", m)
		return
	default:
	}
	_, _, diverged := vsync.Blocked()
	fmt.Println("REPLAY-OK diverged =", diverged)
}
