#!/bin/bash
# usage: mutant_wt.sh <patch> <prop> [only] [tier]
# Applies <patch> in a scratch git worktree of /repo (never in /repo itself), runs the property's check
# against that tree (VERIF_REPO/VERIF_OUT: evidence and replay files go to the scratch output dir), and
# removes the worktree. Exit code = exit code of the check (1 = caught).
patch=$(readlink -f "$1"); prop=$2; only=$3; tier=${4:-quick}
name=$(basename "$(dirname "$patch")")_$(basename "$patch" .diff)_$$
wt=/tmp/mwt/$name; out=/tmp/mwt/out_$name
mkdir -p /tmp/mwt
git -C /repo worktree add -q --detach "$wt" HEAD || exit 3
trap 'git -C /repo worktree remove --force "$wt"; rm -rf "$out"' EXIT
git -C "$wt" apply "$patch" || { echo "patch does not apply"; exit 3; }
args=(-prop "$prop" -tier "$tier")
[ -n "$only" ] && args+=(-only "$only")
VERIF_REPO=$wt VERIF_OUT=$out timeout ${MUTANT_TIMEOUT:-3600} ${VCHECK:-/verif/bin/vcheck} "${args[@]}" > "$out.log" 2>&1; e=$?
grep -E "^VIOLATION|^INCONCLUSIVE|^VACUOUS|^OK|^KNOWN|counterexample:" "$out.log" | cut -c1-300 | head -12
echo "exit=$e patch=$1 prop=$prop log=$out.log"
exit $e
