#!/bin/bash
# usage: runh.sh pkg:Fn args
/verif/bin/vcheck -run "$1" -args "$2" $3 2>&1 | python3 -c "
import json,sys
s=sys.stdin.read()
i=s.find('{\n')
print(s[:i].strip()[:2000])
try:
  d=json.loads(s[i:])
  print(d['Harness'],d['Args'],'paths',d['Paths'],'obl',d['Discharged'],'/',d['Obligations'],'q',d['Queries'],'merges',d['Merges'],'forks',d['Forks'],'steps',d['Steps'],'wall %.1fs solver %.1fs'%(d['Wall']/1e9,d['SolverTime']/1e9))
  print(' err:',d['Err']); print(' inconclusive:',d['Inconclusive']); print(' covers:',d['Covers'])
  for v in d['Violations'] or []: print(' VIOL',v['kind'],v['msg'],v['pos'],v.get('known'), v['stack'][:4]); print('   model:', {k:x for k,x in sorted(v['model'].items()) if x!=0})
except Exception as e: print(s[-3000:])
"
