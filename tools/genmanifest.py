#!/usr/bin/env python3
"""Regenerates /verif/MANIFEST.json from tools/claims.json (one entry per claimed property)."""
import json, os
here = os.path.dirname(os.path.abspath(__file__))
root = os.path.dirname(here)
ids = [json.loads(l)['id'] for l in open(os.path.join(root, 'properties.jsonl'))]
claims = json.load(open(os.path.join(here, 'claims.json')))
checks = []
na = []
for i in ids:
    c = claims.get(i)
    if not c or c.get('not_applicable'):
        na.append({"property_id": i, "reason": (c or {}).get('not_applicable', 'check not built yet; see DESIGN.md section 3')})
        continue
    checks.append({
        "property_id": i,
        "quick_cmd": "./bin/vcheck -prop %s -tier quick" % i,
        "thorough_cmd": "./bin/vcheck -prop %s -tier thorough" % i,
        "evidence_file": "/verif/evidence/%s.json" % i,
        "replay_cmd_template": "./bin/vcheck -replay {path}",
        "engine": "gosym",
        "level_claimed": {"category": "model_checking", "text": c['text'], "design_ref": c.get('design_ref', 'DESIGN.md section 3 ' + i)},
        "level_note": c['note'],
        "technique": c.get('technique', 'bounded symbolic execution of the go/ssa of the working tree; every obligation decided by z3 over all symbolic input values; counterexamples replayed natively'),
    })
m = {
    "version": 1,
    "setup_cmd": "cd /verif/engine && GOFLAGS=-mod=mod GOPROXY=off go build -o /verif/bin/vcheck ./cmd/vcheck",
    "hooks": {"guard": "verif", "enable": "none needed: harnesses and the verifapi package enter the build through go/packages and `go test` overlays (/verif/harness/overlay); no source hooks in /repo",
              "baseline_off_cmd": "cd /repo && go test -vet=off -count=1 -timeout 25m ./...", "source_commits": [], "add_only": True},
    "engines": [{"name": "gosym", "path": "/verif/engine", "serves_properties": [c["property_id"] for c in checks],
                 "kind_free_text": "symbolic executor for go/ssa (x/tools v0.29.0) written for this task: SSA of /repo's working tree -> bit-vector SMT terms, state merging + replay-based forking, z3 -in incremental; native replay through go test -overlay"}],
    "checks": checks,
    "notes": "exit codes: 0 held within bounds; 1 + VIOLATION line (counterexample replayed natively); 2 INCONCLUSIVE/VACUOUS/engine error (never reported as success). Known findings: /verif/known_findings.json.",
    "not_applicable": na,
}
json.dump(m, open(os.path.join(root, 'MANIFEST.json'), 'w'), indent=1)
print("claimed:", [c["property_id"] for c in checks])
