#!/bin/bash
# usage: tools/mutant.sh <patch> <prop> [only-substring]   -- applies a patch to /repo, runs the quick check, restores /repo
set -u
P=$(realpath "$1"); PROP=$2; ONLY=${3:-}
cd /repo || exit 3
if ! git diff --quiet; then echo "/repo has uncommitted changes; refusing"; exit 3; fi
if ! git apply "$P"; then echo "patch does not apply"; exit 3; fi
cd /verif
if [ -n "$ONLY" ]; then ./bin/vcheck -prop "$PROP" -tier quick -only "$ONLY"; else ./bin/vcheck -prop "$PROP" -tier quick; fi
rc=$?
git -C /repo checkout -- . ; git -C /repo clean -fdq
echo "MUTANT-RESULT patch=$(basename $P) prop=$PROP exit=$rc"
exit 0
