#!/bin/bash
# Runs every claimed quick check on the current /repo tree (regenerates evidence/*.json); prints one line per property.
cd /verif || exit 2
rc=0
for id in $(python3 -c "import json;print(' '.join(c['property_id'] for c in json.load(open('MANIFEST.json'))['checks']))"); do
  t0=$(date +%s)
  ./bin/vcheck -prop $id -tier quick > /tmp/runall_$id.log 2>&1; e=$?
  echo "$id exit=$e $(( $(date +%s)-t0 ))s $(grep -cE '^VIOLATION|^INCONCLUSIVE|^VACUOUS' /tmp/runall_$id.log) alarms"
  [ $e -ne 0 ] && rc=1
done
exit $rc
