#!/bin/bash
# Runs the thorough tier of the given properties (default: all claimed) into a scratch output dir
# (VERIF_OUT, so the committed quick-tier evidence is not overwritten); one line per property.
cd /verif || exit 2
out=${VERIF_OUT:-/tmp/thor}; mkdir -p $out
ids="$@"; [ -z "$ids" ] && ids=$(python3 -c "import json;print(' '.join(c['property_id'] for c in json.load(open('MANIFEST.json'))['checks']))")
for id in $ids; do
  t0=$(date +%s)
  VERIF_OUT=$out timeout ${THOROUGH_TIMEOUT:-7200} ./bin/vcheck -j ${J:-8} -prop $id -tier thorough > $out/thorough_$id.log 2>&1; e=$?
  echo "$id thorough exit=$e $(( $(date +%s)-t0 ))s $(grep -cE '^VIOLATION|^INCONCLUSIVE|^VACUOUS' $out/thorough_$id.log) alarms"
done
