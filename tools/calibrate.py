#!/usr/bin/env python3
"""usage: calibrate.py pkg:Fn budget_s extra-flags -- shape shape ...   (shape = a,b,c)
Runs each shape with a wall budget in parallel (8 at a time) and prints those that finish clean."""
import subprocess, sys, json, concurrent.futures as cf
fn, budget = sys.argv[1], int(sys.argv[2])
i = sys.argv.index('--')
flags, shapes = sys.argv[3:i], sys.argv[i+1:]
def run(sh):
    try:
        out = subprocess.run(['timeout', str(budget), '/verif/bin/vcheck', '-run', fn, '-args', sh] + flags, capture_output=True, text=True).stdout
        d = json.loads(out[out.find('{\n'):])
        ok = not d['Err'] and not d['Inconclusive'] and not d['Violations']
        return sh, ok, d['Wall']/1e9, (d['Err'] or d['Inconclusive'] or [v['msg'] for v in d['Violations'] or []])
    except Exception as e:
        return sh, False, budget, 'timeout/err'
good = []
with cf.ThreadPoolExecutor(8) as ex:
    for sh, ok, t, why in ex.map(run, shapes):
        print(sh, 'OK' if ok else 'NO', '%.1fs' % t, '' if ok else why, flush=True)
        if ok: good.append([int(x) for x in sh.split(',')])
print('GOOD', json.dumps(good))
