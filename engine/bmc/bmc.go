// Package bmc is a small SMT bounded model checker for the synchronisation skeleton of
// goroutine protocols built from sync/atomic integers, one sync.Mutex and one sync.Cond per
// shared record (the rowSync protocol of the row-parallel lossy encoder).
//
// The skeleton is EXTRACTED from the go/ssa of the current source on every run: the visible
// operations (atomic Load/Store/Add, Lock, Unlock, Cond.Wait, Cond.Broadcast) in control-flow
// order, with the branch conditions over loaded values. It is then unrolled as a transition
// system with a symbolic scheduler (one choice variable per step, sequentially consistent sync
// operations, Cond.Wait = atomic unlock+sleep, no spurious wake-ups) and z3 is asked for a
// reachable deadlock (some thread not finished, no thread enabled - this is what a lost wake-up
// looks like) or for a waitFor that returns before the awaited value was published.
package bmc

import (
	"fmt"
	"go/constant"
	"go/token"
	"go/types"
	"os/exec"
	"strings"
	"time"

	"golang.org/x/tools/go/ssa"
)

const (
	OpLoad = iota
	OpStore
	OpAdd
	OpLock
	OpUnlock
	OpWait // sleep phase; the re-acquire phase is a synthetic OpReacq
	OpReacq
	OpBroadcast
)

var opNames = []string{"load", "store", "add", "lock", "unlock", "wait", "reacquire", "broadcast"}

// operand of a store / comparison: a constant or a function parameter
type Operand struct {
	IsParam bool
	Param   int
	Const   int64
}

// Next is a decision tree over thread-local registers giving the next visible op (-1 = return).
type Next struct {
	Leaf  bool
	Op    int
	Reg   int // index of the load site (visible op index) whose result is compared
	Cmp   token.Token
	RHS   Operand
	T, F  *Next
}

type VOp struct {
	Kind int
	Var  string // shared variable (field name) for load/store/add
	Arg  Operand
	Next *Next
	Pos  string
}

// Skeleton of one function.
type Skeleton struct {
	Name  string
	Ops   []VOp
	Entry *Next
	Vars  []string
}

func callee(c *ssa.CallCommon) string {
	if f := c.StaticCallee(); f != nil {
		return f.String()
	}
	return ""
}

// recordBase returns the record (struct pointer) an operation acts on.
func recordBase(v ssa.Value) ssa.Value {
	switch x := v.(type) {
	case *ssa.FieldAddr:
		return x.X
	case *ssa.UnOp:
		return recordBase(x.X)
	}
	return nil
}

func fieldName(v ssa.Value) string {
	switch x := v.(type) {
	case *ssa.FieldAddr:
		st := x.X.Type().Underlying().(*types.Pointer).Elem().Underlying().(*types.Struct)
		return st.Field(x.Field).Name()
	case *ssa.UnOp: // load of a pointer field (r.cond)
		return fieldName(x.X)
	}
	return ""
}

// Extract builds the skeleton of fn; it fails (error) on anything it does not understand, so that a
// change of the code's shape makes the check INCONCLUSIVE rather than silently green.
func Extract(fn *ssa.Function) (*Skeleton, error) {
	sk := &Skeleton{Name: fn.String()}
	type key struct {
		b *ssa.BasicBlock
		i int
	}
	opAt := map[key]int{}
	callOp := map[*ssa.Call]int{}
	varSet := map[string]bool{}
	var err error
	fail := func(format string, a ...interface{}) *Next {
		if err == nil {
			err = fmt.Errorf(format, a...)
		}
		return &Next{Leaf: true, Op: -1}
	}
	paramIdx := func(v ssa.Value) (Operand, bool) {
		switch x := v.(type) {
		case *ssa.Parameter:
			for i, p := range fn.Params {
				if p == x {
					return Operand{IsParam: true, Param: i}, true
				}
			}
		case *ssa.Const:
			if x.Value != nil {
				if n, ok := constant.Int64Val(constant.ToInt(x.Value)); ok {
					return Operand{Const: n}, true
				}
			}
		case *ssa.Convert:
			return paramIdxRec(fn, x.X)
		}
		return Operand{}, false
	}
	var base ssa.Value
	depth := 0
	var resolve func(b *ssa.BasicBlock, i int) *Next
	resolve = func(b *ssa.BasicBlock, i int) *Next {
		depth++
		defer func() { depth-- }()
		if depth > 200 {
			return fail("control flow without a visible operation on a cycle in %s", fn)
		}
		for ; i < len(b.Instrs); i++ {
			switch ins := b.Instrs[i].(type) {
			case *ssa.Call:
				name := callee(&ins.Call)
				kind := -1
				switch {
				case strings.HasSuffix(name, ").Load") && strings.Contains(name, "sync/atomic"):
					kind = OpLoad
				case strings.HasSuffix(name, ").Store") && strings.Contains(name, "sync/atomic"):
					kind = OpStore
				case strings.HasSuffix(name, ").Add") && strings.Contains(name, "sync/atomic"):
					kind = OpAdd
				case name == "(*sync.Mutex).Lock":
					kind = OpLock
				case name == "(*sync.Mutex).Unlock":
					kind = OpUnlock
				case name == "(*sync.Cond).Wait":
					kind = OpWait
				case name == "(*sync.Cond).Broadcast":
					kind = OpBroadcast
				default:
					return fail("unmodelled call %s in %s", name, fn)
				}
				if rb := recordBase(ins.Call.Args[0]); rb == nil {
					return fail("operation on something that is not a field of the shared record in %s", fn)
				} else if base == nil {
					base = rb
				} else if base != rb {
					return fail("operations on more than one shared record in %s", fn)
				}
				k := key{b, i}
				if idx, ok := opAt[k]; ok {
					return &Next{Leaf: true, Op: idx}
				}
				idx := len(sk.Ops)
				opAt[k] = idx
				callOp[ins] = idx
				op := VOp{Kind: kind, Pos: fn.Prog.Fset.Position(ins.Pos()).String()}
				if kind == OpLoad || kind == OpStore || kind == OpAdd {
					op.Var = fieldName(ins.Call.Args[0])
					if op.Var == "" {
						return fail("cannot name the atomic variable at %s", op.Pos)
					}
					varSet[op.Var] = true
					if kind != OpLoad {
						a, ok := paramIdx(ins.Call.Args[1])
						if !ok {
							return fail("atomic operand is neither constant nor parameter at %s", op.Pos)
						}
						op.Arg = a
					}
				}
				sk.Ops = append(sk.Ops, op)
				if kind == OpWait {
					// synthetic re-acquire op follows the sleep
					ridx := len(sk.Ops)
					sk.Ops = append(sk.Ops, VOp{Kind: OpReacq, Pos: op.Pos})
					sk.Ops[idx].Next = &Next{Leaf: true, Op: ridx}
					nx := resolve(b, i+1)
					sk.Ops[ridx].Next = nx
				} else {
					nx := resolve(b, i+1)
					sk.Ops[idx].Next = nx
				}
				return &Next{Leaf: true, Op: idx}
			case *ssa.If:
				bin, ok := ins.Cond.(*ssa.BinOp)
				if !ok {
					return fail("branch on a non-comparison in %s", fn)
				}
				var reg int = -1
				var rhs Operand
				op := bin.Op
				if c, ok := bin.X.(*ssa.Call); ok {
					if r, ok2 := callOp[c]; ok2 {
						reg = r
						rhs, ok = paramIdx(bin.Y)
						if !ok {
							return fail("comparison operand not understood in %s", fn)
						}
					}
				} else if c, ok := bin.Y.(*ssa.Call); ok {
					if r, ok2 := callOp[c]; ok2 {
						reg = r
						rhs, ok = paramIdx(bin.X)
						if !ok {
							return fail("comparison operand not understood in %s", fn)
						}
						op = flip(op)
					}
				}
				if reg < 0 {
					return fail("branch does not compare a loaded value in %s", fn)
				}
				return &Next{Reg: reg, Cmp: op, RHS: rhs, T: resolve(b.Succs[0], 0), F: resolve(b.Succs[1], 0)}
			case *ssa.Jump:
				return resolve(b.Succs[0], 0)
			case *ssa.Return:
				return &Next{Leaf: true, Op: -1}
			case *ssa.Panic:
				return fail("panic in %s", fn)
			}
		}
		return fail("fell off block in %s", fn)
	}
	sk.Entry = resolve(fn.Blocks[0], 0)
	for v := range varSet {
		sk.Vars = append(sk.Vars, v)
	}
	return sk, err
}

func paramIdxRec(fn *ssa.Function, v ssa.Value) (Operand, bool) {
	switch x := v.(type) {
	case *ssa.Parameter:
		for i, p := range fn.Params {
			if p == x {
				return Operand{IsParam: true, Param: i}, true
			}
		}
	case *ssa.Const:
		if x.Value != nil {
			if n, ok := constant.Int64Val(constant.ToInt(x.Value)); ok {
				return Operand{Const: n}, true
			}
		}
	case *ssa.Convert:
		return paramIdxRec(fn, x.X)
	}
	return Operand{}, false
}

func flip(op token.Token) token.Token {
	switch op {
	case token.LSS:
		return token.GTR
	case token.GTR:
		return token.LSS
	case token.LEQ:
		return token.GEQ
	case token.GEQ:
		return token.LEQ
	}
	return op
}

func (sk *Skeleton) String() string {
	var sb strings.Builder
	var pn func(n *Next) string
	pn = func(n *Next) string {
		if n.Leaf {
			if n.Op < 0 {
				return "ret"
			}
			return fmt.Sprintf("#%d", n.Op)
		}
		r := fmt.Sprintf("%d", n.RHS.Const)
		if n.RHS.IsParam {
			r = fmt.Sprintf("param%d", n.RHS.Param)
		}
		return fmt.Sprintf("(r%d %s %s ? %s : %s)", n.Reg, n.Cmp, r, pn(n.T), pn(n.F))
	}
	fmt.Fprintf(&sb, "%s: entry %s;", sk.Name, pn(sk.Entry))
	for i, o := range sk.Ops {
		a := ""
		if o.Kind == OpStore || o.Kind == OpAdd {
			if o.Arg.IsParam {
				a = fmt.Sprintf(" param%d", o.Arg.Param)
			} else {
				a = fmt.Sprintf(" %d", o.Arg.Const)
			}
		}
		fmt.Fprintf(&sb, " #%d %s %s%s -> %s;", i, opNames[o.Kind], o.Var, a, pn(o.Next))
	}
	return sb.String()
}

// ---- transition system ----

// Call is one invocation in a thread's program: skeleton + concrete or symbolic parameter values
// (SMT expressions as strings).
type Call struct {
	Sk     *Skeleton
	Params map[int]string
}

type Thread struct {
	Name  string
	Calls []Call
	// Post: for each call, an SMT boolean over the shared variables that must hold when it returns
	// (e.g. waitFor(needed): done >= needed).
	Post []string
}

type Result struct {
	Schedule []int             // thread index of every real move, in order
	Kinds    []string          // operation kind of every real move
	Model    map[string]string // values of the extra declared constants
	Verdict string // "unsat" (no deadlock / bad return within the bound), "sat", "unknown"
	Trace   []string
	Steps   int
	Time    time.Duration
	Query   string
}

type flatOp struct {
	VOp
	call   int
	base   int // index of the first op of this call in the thread's flat list
	params map[int]string
}

// Check unrolls the system for K scheduler steps and asks for a reachable bad state.
// Mode "bad": is a deadlock / early return reachable within K steps?  Mode "unwind": can any thread still
// move after K steps (if not, K steps cover every execution: the unwinding assertion)?
// Mode "witness": is there a complete execution in which some thread slept in Cond.Wait (reachability witness)?
// decl: extra SMT declarations (symbolic parameters); their model values are returned in Result.Model.
func CheckDecl(decl string, threads []Thread, vars []string, K int, extra []string, timeout time.Duration, mode string) Result {
	t0 := time.Now()
	var sb strings.Builder
	w := func(format string, a ...interface{}) { fmt.Fprintf(&sb, format+"\n", a...) }
	T := len(threads)
	sb.WriteString(decl)
	var declNames []string
	for _, l := range strings.Split(decl, "\n") {
		f := strings.Fields(l)
		if len(f) >= 2 && f[0] == "(declare-const" {
			declNames = append(declNames, f[1])
		}
	}
	// flatten programs
	flat := make([][]flatOp, T)
	callStart := make([][]int, T)
	for t, th := range threads {
		for ci, c := range th.Calls {
			callStart[t] = append(callStart[t], len(flat[t]))
			base := len(flat[t])
			for _, o := range c.Sk.Ops {
				flat[t] = append(flat[t], flatOp{VOp: o, call: ci, base: base, params: c.Params})
			}
		}
		callStart[t] = append(callStart[t], len(flat[t])) // END
	}
	end := func(t int) int { return len(flat[t]) }
	operand := func(o Operand, params map[int]string) string {
		if o.IsParam {
			return params[o.Param]
		}
		return fmt.Sprintf("%d", o.Const)
	}
	// state declarations
	for k := 0; k <= K; k++ {
		for _, v := range vars {
			w("(declare-const %s_%d Int)", v, k)
		}
		w("(declare-const owner_%d Int)", k)
		for t := 0; t < T; t++ {
			w("(declare-const pc_%d_%d Int)", t, k)
			w("(declare-const sleep_%d_%d Bool)", t, k)
			for i, o := range flat[t] {
				if o.Kind == OpLoad {
					w("(declare-const r_%d_%d_%d Int)", t, i, k)
				}
			}
		}
		if k < K {
			w("(declare-const sched_%d Int)", k)
			w("(assert (and (<= 0 sched_%d) (< sched_%d %d)))", k, k, T)
		}
	}
	for _, e := range extra {
		w("(assert %s)", e)
	}
	// entry pc of a call: resolve the entry decision tree (it has no registers yet: must be a leaf)
	entryOf := func(t, ci int) string {
		c := threads[t].Calls[ci]
		if !c.Sk.Entry.Leaf {
			return "0"
		}
		if c.Sk.Entry.Op < 0 {
			return fmt.Sprintf("%d", callStart[t][ci+1])
		}
		return fmt.Sprintf("%d", callStart[t][ci]+c.Sk.Entry.Op)
	}
	// initial state
	for _, v := range vars {
		w("(assert (= %s_0 0))", v)
	}
	w("(assert (= owner_0 %d))", T)
	for t := 0; t < T; t++ {
		w("(assert (= pc_%d_0 %s))", t, entryOf(t, 0))
		w("(assert (not sleep_%d_0))", t)
	}
	// next-pc expression for op i of thread t evaluated with registers at step kReg
	var nextExpr func(t int, fo flatOp, n *Next, regAt func(site int) string) string
	nextExpr = func(t int, fo flatOp, n *Next, regAt func(site int) string) string {
		if n.Leaf {
			if n.Op < 0 {
				// return: go to the entry of the next call (or END)
				if fo.call+1 < len(threads[t].Calls) {
					return entryOf(t, fo.call+1)
				}
				return fmt.Sprintf("%d", end(t))
			}
			return fmt.Sprintf("%d", fo.base+n.Op)
		}
		var c string
		l, r := regAt(fo.base+n.Reg), operand(n.RHS, fo.params)
		switch n.Cmp {
		case token.GEQ:
			c = fmt.Sprintf("(>= %s %s)", l, r)
		case token.GTR:
			c = fmt.Sprintf("(> %s %s)", l, r)
		case token.LSS:
			c = fmt.Sprintf("(< %s %s)", l, r)
		case token.LEQ:
			c = fmt.Sprintf("(<= %s %s)", l, r)
		case token.EQL:
			c = fmt.Sprintf("(= %s %s)", l, r)
		default:
			c = fmt.Sprintf("(not (= %s %s))", l, r)
		}
		return fmt.Sprintf("(ite %s %s %s)", c, nextExpr(t, fo, n.T, regAt), nextExpr(t, fo, n.F, regAt))
	}
	// enabledness of thread t at step k
	enabled := func(t, k int) string {
		var alts []string
		for i, o := range flat[t] {
			cond := fmt.Sprintf("(= pc_%d_%d %d)", t, k, i)
			switch o.Kind {
			case OpLock, OpReacq:
				g := fmt.Sprintf("(= owner_%d %d)", k, T)
				if o.Kind == OpReacq {
					g = fmt.Sprintf("(and %s (not sleep_%d_%d))", g, t, k)
				}
				alts = append(alts, fmt.Sprintf("(and %s %s)", cond, g))
			default:
				alts = append(alts, cond)
			}
		}
		if len(alts) == 0 {
			return "false"
		}
		return "(or " + strings.Join(alts, " ") + ")"
	}
	// transitions
	for k := 0; k < K; k++ {
		for t := 0; t < T; t++ {
			// thread t moves at step k iff scheduled and enabled
			w("(define-fun mv_%d_%d () Bool (and (= sched_%d %d) %s))", t, k, k, t, enabled(t, k))
		}
		anyMove := make([]string, T)
		anyEn := make([]string, T)
		for t := 0; t < T; t++ {
			anyMove[t] = fmt.Sprintf("mv_%d_%d", t, k)
			anyEn[t] = enabled(t, k)
		}
		// the scheduler never wastes a step while some thread can move
		w("(assert (=> (or %s) (or %s)))", strings.Join(anyEn, " "), strings.Join(anyMove, " "))
		// shared variables, owner, sleep flags: default = unchanged; per (thread, op) effects
		newVar := map[string]string{}
		for _, v := range vars {
			newVar[v] = fmt.Sprintf("%s_%d", v, k)
		}
		newOwner := fmt.Sprintf("owner_%d", k)
		newSleep := make([]string, T)
		for t := 0; t < T; t++ {
			newSleep[t] = fmt.Sprintf("sleep_%d_%d", t, k)
		}
		for t := 0; t < T; t++ {
			newPC := fmt.Sprintf("pc_%d_%d", t, k)
			for i, o := range flat[t] {
				at := fmt.Sprintf("(and mv_%d_%d (= pc_%d_%d %d))", t, k, t, k, i)
				regAt := func(site int) string {
					if site == i && o.Kind == OpLoad {
						return fmt.Sprintf("%s_%d", o.Var, k) // value loaded right now
					}
					return fmt.Sprintf("r_%d_%d_%d", t, site, k)
				}
				newPC = fmt.Sprintf("(ite %s %s %s)", at, nextExpr(t, o, o.Next, regAt), newPC)
				switch o.Kind {
				case OpStore:
					newVar[o.Var] = fmt.Sprintf("(ite %s %s %s)", at, operand(o.Arg, o.params), newVar[o.Var])
				case OpAdd:
					newVar[o.Var] = fmt.Sprintf("(ite %s (+ %s_%d %s) %s)", at, o.Var, k, operand(o.Arg, o.params), newVar[o.Var])
				case OpLock, OpReacq:
					newOwner = fmt.Sprintf("(ite %s %d %s)", at, t, newOwner)
				case OpUnlock:
					newOwner = fmt.Sprintf("(ite %s %d %s)", at, T, newOwner)
				case OpWait:
					newOwner = fmt.Sprintf("(ite %s %d %s)", at, T, newOwner)
					newSleep[t] = fmt.Sprintf("(ite %s true %s)", at, newSleep[t])
				case OpBroadcast:
					for u := 0; u < T; u++ {
						newSleep[u] = fmt.Sprintf("(ite %s false %s)", at, newSleep[u])
					}
				}
			}
			w("(assert (= pc_%d_%d %s))", t, k+1, newPC)
			for i, o := range flat[t] {
				if o.Kind == OpLoad {
					w("(assert (= r_%d_%d_%d (ite (and mv_%d_%d (= pc_%d_%d %d)) %s_%d r_%d_%d_%d)))", t, i, k+1, t, k, t, k, i, o.Var, k, t, i, k)
				}
			}
		}
		for _, v := range vars {
			w("(assert (= %s_%d %s))", v, k+1, newVar[v])
		}
		w("(assert (= owner_%d %s))", k+1, newOwner)
		for t := 0; t < T; t++ {
			w("(assert (= sleep_%d_%d %s))", t, k+1, newSleep[t])
		}
	}
	// bad states
	var bad []string
	for k := 0; k <= K; k++ {
		var none, notDone []string
		for t := 0; t < T; t++ {
			none = append(none, fmt.Sprintf("(not %s)", enabled(t, k)))
			notDone = append(notDone, fmt.Sprintf("(not (= pc_%d_%d %d))", t, k, end(t)))
		}
		bad = append(bad, fmt.Sprintf("(and %s (or %s))", strings.Join(none, " "), strings.Join(notDone, " ")))
		// post-conditions at call returns: thread t is past call ci  => post holds was checked at the moment of return;
		// we check it at the step where pc enters the next call's entry / END coming from a different call.
		if k > 0 {
			for t, th := range threads {
				for ci, post := range th.Post {
					if post == "" {
						continue
					}
					lo, hi := callStart[t][ci], callStart[t][ci+1]
					was := fmt.Sprintf("(and (>= pc_%d_%d %d) (< pc_%d_%d %d))", t, k-1, lo, t, k-1, hi)
					now := fmt.Sprintf("(>= pc_%d_%d %d)", t, k, hi)
					p := strings.ReplaceAll(post, "@", fmt.Sprintf("_%d", k))
					bad = append(bad, fmt.Sprintf("(and %s %s (not %s))", was, now, p))
				}
			}
		}
	}
	if mode == "witness" {
		var sl, fin []string
		for t := 0; t < T; t++ {
			fin = append(fin, fmt.Sprintf("(= pc_%d_%d %d)", t, K, end(t)))
			for k := 0; k <= K; k++ {
				sl = append(sl, fmt.Sprintf("sleep_%d_%d", t, k))
			}
		}
		w("(assert (and %s (or %s)))", strings.Join(fin, " "), strings.Join(sl, " "))
	} else if mode == "unwind" {
		var en []string
		for t := 0; t < T; t++ {
			en = append(en, enabled(t, K))
		}
		w("(assert (or %s))", strings.Join(en, " "))
	} else {
		w("(assert (or %s))", strings.Join(bad, "\n "))
	}
	w("(check-sat)")
	// model values for the trace
	gv := append([]string{}, declNames...)
	for k := 0; k <= K; k++ {
		if k < K {
			gv = append(gv, fmt.Sprintf("sched_%d", k))
		}
		gv = append(gv, fmt.Sprintf("owner_%d", k))
		for _, v := range vars {
			gv = append(gv, fmt.Sprintf("%s_%d", v, k))
		}
		for t := 0; t < T; t++ {
			gv = append(gv, fmt.Sprintf("pc_%d_%d", t, k), fmt.Sprintf("sleep_%d_%d", t, k))
		}
	}
	w("(get-value (%s))", strings.Join(gv, " "))
	res := Result{Steps: K, Query: sb.String()}
	cmd := exec.Command("z3", fmt.Sprintf("-T:%d", int(timeout.Seconds())), "-in")
	cmd.Stdin = strings.NewReader(sb.String())
	out, _ := cmd.CombinedOutput()
	res.Time = time.Since(t0)
	txt := string(out)
	first := strings.TrimSpace(strings.SplitN(txt, "\n", 2)[0])
	switch first {
	case "unsat":
		res.Verdict = "unsat"
	case "sat":
		res.Verdict = "sat"
		res.Trace, res.Schedule, res.Kinds, res.Model = decodeTrace(txt, threads, flat, vars, K, declNames)
	default:
		res.Verdict = "unknown"
		res.Trace = []string{strings.TrimSpace(first)}
	}
	return res
}

func decodeTrace(txt string, threads []Thread, flat [][]flatOp, vars []string, K int, declNames []string) ([]string, []int, []string, map[string]string) {
	vals := map[string]string{}
	toks := strings.Fields(strings.NewReplacer("(", " ", ")", " ").Replace(txt))
	for i := 0; i+1 < len(toks); i++ {
		if strings.Contains(toks[i], "_") && (isNum(toks[i+1]) || toks[i+1] == "true" || toks[i+1] == "false" || toks[i+1] == "-") {
			v := toks[i+1]
			if v == "-" && i+2 < len(toks) {
				v = "-" + toks[i+2]
			}
			if _, ok := vals[toks[i]]; !ok {
				vals[toks[i]] = v
			}
		}
	}
	var tr []string
	var sched []int
	var kinds []string
	model := map[string]string{}
	for _, n := range declNames {
		model[n] = vals[n]
	}
	for k := 0; k < K; k++ {
		s := vals[fmt.Sprintf("sched_%d", k)]
		var t int
		fmt.Sscanf(s, "%d", &t)
		var pc int
		fmt.Sscanf(vals[fmt.Sprintf("pc_%d_%d", t, k)], "%d", &pc)
		var pcn int
		fmt.Sscanf(vals[fmt.Sprintf("pc_%d_%d", t, k+1)], "%d", &pcn)
		if t >= len(threads) || pc >= len(flat[t]) {
			continue
		}
		if pcn == pc && vals[fmt.Sprintf("sleep_%d_%d", t, k)] == vals[fmt.Sprintf("sleep_%d_%d", t, k+1)] {
			continue // stutter (thread not enabled)
		}
		o := flat[t][pc]
		st := ""
		for _, v := range vars {
			st += fmt.Sprintf(" %s=%s", v, vals[fmt.Sprintf("%s_%d", v, k+1)])
		}
		tr = append(tr, fmt.Sprintf("step %d: %s %s %s ->%s", k, threads[t].Name, opNames[o.Kind], o.Var, st))
		sched = append(sched, t)
		kinds = append(kinds, opNames[o.Kind])
	}
	return tr, sched, kinds, model
}

func isNum(s string) bool {
	if s == "" {
		return false
	}
	for _, r := range s {
		if r < '0' || r > '9' {
			return false
		}
	}
	return true
}
