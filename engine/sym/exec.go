package sym

import (
	"fmt"
	"os"
	"go/constant"
	"go/token"
	"go/types"
	"sort"
	"strings"
	"sync"
	"time"

	"golang.org/x/tools/go/ssa"

	"verif/engine/smt"
)

var finfoMu sync.Mutex
var lastProgress time.Time

// incrementalBudget is the time the long-lived incremental solver gets per query before the query is
// re-issued to a fresh non-incremental solver process.
const incrementalBudget = 4 * time.Second

type jent struct {
	obj *Object
	idx int
	old Value
}

type Decision struct {
	Kind    int // 0 = branch, 1 = value
	Branch  bool
	Val     uint64
	Exclude []uint64
	Fixed   bool // value decisions: true once a value was chosen (replay), false = choose a new one with Exclude
}

// control-flow panics
type pathEnd struct{ reason string }
type mergeAbort struct{ why string }

type Frame struct {
	fn     *ssa.Function
	info   *fnInfo
	regs   []Value
	defers []func()
	back   map[*ssa.BasicBlock]int
	caller *Frame
	pos    token.Pos
}

// Exec is the state of one path exploration (reset per path).
type Exec struct {
	e         *Engine
	pc        []*smt.Term
	journalOn bool
	mergeDepth int
	dec       []Decision
	dpos      int
	pending   *[][]Decision
	nondetN   map[string]int
	res       *Result
	steps     int64
	top       *Frame
	cur       *Frame
	pendingGo []func()
	knownActive map[string]bool
	vars      []*smt.Term
	lemmas    []*smt.Term
	deadline  time.Time
	procs     *smt.Term
	errWhere  string
	pools     map[*Object]Value
	tainted   bool
	task      int                       // 0 = main goroutine, k>0 = k-th spawned task of the current fork/join region
	lockDepth int                       // > 0 while a mutex is held or a sync.Once body runs
	poolTask  map[*Object]int           // fork/join task that Put the pooled object (0 = outside a region)
	poolThread map[*Object]int          // analysis thread that Put the pooled object
	hbSeg     *hbSegment                // happens-before analysis: segment being recorded (nil outside analysed threads)
	hbThreads map[int][]*hbSegment      // per analysis thread: its segments in program order
	hbThread  int
	taskW     []map[jkey]bool           // per task: cells written (non-atomic)
	taskR     []map[jkey]bool           // per task: cells read (non-atomic)
	atomicOp  bool
	errStack  []string
	poolHook  func(x *Exec, p Pointer) (Value, bool)
}

type outKind int

const (
	oStop outKind = iota
	oRet
)

type outcome struct {
	kind outKind
	rets []Value
}

// ---- heap access with journaling ----

func (x *Exec) write(o *Object, i int, v Value) {
	if i < 0 || i >= o.N {
		efail("internal: write out of object bounds (%s idx %d size %d)", o.Name, i, o.N)
	}
	if x.journalOn {
		x.e.journal = append(x.e.journal, jent{o, i, o.rawGet(i)})
	}
	o.rawSet(i, v)
	if x.task > 0 && !x.atomicOp && x.lockDepth == 0 && x.e.RaceCheck {
		x.taskW[x.task-1][jkey{o, i}] = true
	}
	if x.hbSeg != nil && !x.atomicOp && x.lockDepth == 0 {
		x.hbSeg.w[jkey{o, i}] = true
	}
}

func (x *Exec) read(o *Object, i int) Value {
	if i < 0 || i >= o.N {
		efail("internal: read out of object bounds (%s idx %d size %d)", o.Name, i, o.N)
	}
	v := o.rawGet(i)
	if v == nil {
		v = x.e.zeroLeaf(o.Leaf[i%len(o.Leaf)])
	}
	if x.task > 0 && !x.atomicOp && x.lockDepth == 0 && x.e.RaceCheck {
		x.taskR[x.task-1][jkey{o, i}] = true
	}
	if x.hbSeg != nil && !x.atomicOp && x.lockDepth == 0 {
		x.hbSeg.r[jkey{o, i}] = true
	}
	return v
}

func (x *Exec) rollback(mark int) {
	j := x.e.journal
	for k := len(j) - 1; k >= mark; k-- {
		j[k].obj.rawSet(j[k].idx, j[k].old)
	}
	x.e.journal = j[:mark]
}

// ---- path condition and solver ----

func (x *Exec) pcTerm() *smt.Term { return x.e.C.AndAll(x.pc) }

func (x *Exec) addPC(t *smt.Term) {
	if t.IsTrue() {
		return
	}
	x.pc = append(x.pc, t)
}

// check returns the verdict for pc ∧ extra.
func (x *Exec) check(extra *smt.Term, wantModel bool) (smt.Verdict, map[string]uint64) {
	if extra.IsFalse() {
		return smt.Unsat, nil
	}
	for _, p := range x.pc {
		if p.IsFalse() {
			return smt.Unsat, nil
		}
	}
	if !x.deadline.IsZero() && time.Now().After(x.deadline) {
		efail("wall-clock budget exceeded")
	}
	pct := x.pcTerm()
	key := [2]int{pct.ID, extra.ID}
	if !wantModel {
		if v, ok := x.e.qcache[key]; ok {
			return v, nil
		}
	}
	tq := time.Now()
	if os.Getenv("VERIF_SLOW") != "" && tq.Sub(lastProgress) > 10*time.Second {
		lastProgress = tq
		fmt.Fprintf(os.Stderr, "progress: paths=%d queries=%d obligations=%d steps=%d forks=%d merges=%d restarts=%d pc=%d at %s\n", x.res.Paths, x.e.S.Queries, x.res.Obligations, x.steps, x.res.Forks, x.res.Merges, x.res.Restarts, len(x.pc), x.where())
	}
	v, m, _ := x.e.S.CheckPC(x.pc, extra, wantModel)
	if v == smt.Unknown && x.e.opts.Timeout > incrementalBudget {
		// the incremental core gave up within its short budget: retry in a fresh process with the full budget
		as := make([]*smt.Term, 0, len(x.pc)+1)
		as = append(as, x.pc...)
		as = append(as, extra)
		v, m, _ = x.e.S.CheckFresh(as, wantModel, x.e.opts.Timeout)
		x.res.FreshQueries++
	}
	if dt := time.Since(tq); dt > 5*time.Second && os.Getenv("VERIF_SLOW") != "" {
		fmt.Fprintf(os.Stderr, "slow query %.1fs -> %v at %s (pc terms %d)\n", dt.Seconds(), v, x.where(), len(x.pc))
	}
	x.e.qcache[key] = v
	return v, m
}

func (x *Exec) feasible(c *smt.Term) bool {
	if c.IsTrue() {
		return true
	}
	if c.IsFalse() {
		return false
	}
	v, _ := x.check(c, false)
	if v == smt.Unknown {
		x.res.Inconclusive = appendUniq(x.res.Inconclusive, "feasibility query unknown (treated as feasible)")
	}
	return v != smt.Unsat
}

func appendUniq(s []string, v string) []string {
	for _, o := range s {
		if o == v {
			return s
		}
	}
	if len(s) < 50 {
		s = append(s, v)
	}
	return s
}

func (x *Exec) where() string {
	f := x.cur
	for f != nil {
		if f.pos.IsValid() {
			p := x.e.P.Prog.Fset.Position(f.pos)
			return fmt.Sprintf("%s:%d (%s)", shortFile(p.Filename), p.Line, f.fn.Name())
		}
		f = f.caller
	}
	return "?"
}

func (x *Exec) stack() []string {
	var r []string
	for f := x.cur; f != nil && len(r) < 12; f = f.caller {
		p := x.e.P.Prog.Fset.Position(f.pos)
		r = append(r, fmt.Sprintf("%s %s:%d", f.fn.String(), shortFile(p.Filename), p.Line))
	}
	return r
}

func shortFile(f string) string {
	if i := strings.Index(f, "/repo/"); i >= 0 {
		return f[i+6:]
	}
	if i := strings.LastIndex(f, "/src/"); i >= 0 {
		return f[i+5:]
	}
	return f
}

// oblige records an obligation: ok must hold under pc. On failure a violation
// with a model is recorded. Afterwards ok is assumed on the continuing path.
func (x *Exec) oblige(ok *smt.Term, kind, msg string) {
	if ok.IsTrue() {
		return
	}
	x.res.Obligations++
	v, m := x.check(x.e.C.BNot(ok), true)
	switch v {
	case smt.Unsat:
		x.res.Discharged++
	case smt.Sat:
		x.violation(kind, msg, m)
	default:
		x.res.Inconclusive = appendUniq(x.res.Inconclusive, fmt.Sprintf("%s: %s at %s: solver unknown", kind, msg, x.where()))
	}
	x.addPC(ok)
	if ok.IsFalse() {
		panic(pathEnd{"obligation always fails"})
	}
}

func (x *Exec) violation(kind, msg string, m map[string]uint64) {
	known := ""
	for k := range x.knownActive {
		known = k
	}
	viol := Violation{Kind: kind, Msg: msg, Pos: x.where(), Model: m, Known: known, Stack: x.stack()}
	if known != "" && x.e.KnownOpen[known] {
		for _, o := range x.res.Violations {
			if o.Known == known {
				return
			}
		}
		x.res.Violations = append(x.res.Violations, viol)
		return
	}
	viol.Known = ""
	if kind == "candidate" {
		for _, o := range x.res.Violations {
			if o.Kind == "candidate" && o.Pos == viol.Pos {
				return
			}
		}
	}
	x.res.Violations = append(x.res.Violations, viol)
	n := 0
	for _, o := range x.res.Violations {
		if o.Known == "" && o.Kind != "candidate" {
			n++
		}
	}
	if n >= x.e.opts.MaxViol {
		panic(stopAll{})
	}
}

type stopAll struct{}

// decide forks on an unmergeable symbolic branch.
func (x *Exec) decide(c *smt.Term) bool {
	if x.mergeDepth > 0 {
		panic(mergeAbort{"fork inside merge"})
	}
	if x.dpos < len(x.dec) {
		d := x.dec[x.dpos]
		x.dpos++
		if d.Kind != 0 {
			efail("internal: decision kind mismatch on replay")
		}
		if d.Branch {
			x.addPC(c)
		} else {
			x.addPC(x.e.C.BNot(c))
		}
		return d.Branch
	}
	// both sides are known feasible by the caller
	alt := append(append([]Decision(nil), x.dec...), Decision{Kind: 0, Branch: false})
	*x.pending = append(*x.pending, alt)
	x.dec = append(x.dec, Decision{Kind: 0, Branch: true})
	x.dpos++
	x.res.Forks++
	x.addPC(c)
	return true
}

// concretize forks over the feasible values of t (value split).
func (x *Exec) concretize(t *smt.Term, what string) uint64 {
	if t.IsConst() {
		return t.Val
	}
	if x.mergeDepth > 0 {
		panic(mergeAbort{"value split inside merge"})
	}
	var excl []uint64
	if x.dpos < len(x.dec) {
		d := x.dec[x.dpos]
		if d.Kind != 1 {
			efail("internal: decision kind mismatch on replay (value)")
		}
		if d.Fixed {
			x.dpos++
			x.addPC(x.e.C.Eq(t, x.e.C.BV(t.W, d.Val)))
			return d.Val
		}
		excl = d.Exclude
		x.dec = x.dec[:x.dpos]
	}
	for _, v := range excl {
		x.addPC(x.e.C.BNot(x.e.C.Eq(t, x.e.C.BV(t.W, v))))
	}
	v, m := x.check(x.e.C.True(), true)
	if v == smt.Unsat {
		panic(pathEnd{"no more values"})
	}
	if v != smt.Sat {
		efail("value split of %s: solver unknown", what)
	}
	memo := map[int]uint64{}
	val := x.e.C.Eval(t, m, memo)
	if len(excl) > 256 {
		efail("value split of %s has more than 256 feasible values", what)
	}
	alt := append(append([]Decision(nil), x.dec...), Decision{Kind: 1, Exclude: append(append([]uint64(nil), excl...), val)})
	*x.pending = append(*x.pending, alt)
	x.dec = append(x.dec, Decision{Kind: 1, Fixed: true, Val: val})
	x.dpos++
	x.res.Forks++
	x.addPC(x.e.C.Eq(t, x.e.C.BV(t.W, val)))
	return val
}

// ---- running harnesses ----

func (e *Engine) RunHarness(pkgPath, fname string, args []int64, maxWall time.Duration) (res *Result) {
	res = &Result{Harness: fname, Args: args, Covers: map[string]bool{}, Bounds: map[string]int64{}}
	t0 := time.Now()
	q0, st0 := e.S.Queries, e.S.Time
	defer func() {
		res.Wall = time.Since(t0)
		res.Queries += e.S.Queries - q0 // (analyses that talk to z3 directly - CheckHB - have already counted theirs)
		res.SolverTime += e.S.Time - st0
		for f := range e.funcs {
			res.Funcs = append(res.Funcs, f)
		}
		sort.Strings(res.Funcs)
		for f := range e.stubs {
			res.Stubs = append(res.Stubs, f)
		}
		sort.Strings(res.Stubs)
		for _, er := range e.S.Errors {
			res.Inconclusive = appendUniq(res.Inconclusive, "solver error: "+er)
		}
		e.S.Errors = nil
	}()
	pkg := e.P.Pkgs[pkgPath]
	if pkg == nil {
		res.Err = "package not loaded: " + pkgPath
		return
	}
	fn := pkg.Func(fname)
	if fn == nil {
		res.Err = "harness function not found: " + fname
		return
	}
	pending := [][]Decision{nil}
	var deadline time.Time
	if maxWall > 0 {
		deadline = t0.Add(maxWall)
	}
	for len(pending) > 0 {
		dec := pending[len(pending)-1]
		pending = pending[:len(pending)-1]
		res.Paths++
		if res.Paths%100 == 0 && os.Getenv("VERIF_SLOW") != "" {
			fmt.Fprintf(os.Stderr, "progress: paths=%d pending=%d queries=%d obligations=%d steps=%d declen=%d\n", res.Paths, len(pending), e.S.Queries-q0, res.Obligations, res.Steps, len(dec))
		}
		if res.Paths > e.opts.MaxPaths {
			res.Err = fmt.Sprintf("path budget exceeded (%d)", e.opts.MaxPaths)
			return
		}
		if maxWall > 0 && time.Now().After(deadline) {
			res.Err = "wall-clock budget exceeded"
			return
		}
		for {
			npend := len(pending)
			stop, restart := e.runPath(fn, args, dec, &pending, res, deadline)
			if restart {
				pending = pending[:npend]
				res.Restarts++
				if res.Restarts > 10000 {
					res.Err = "too many path restarts"
					return
				}
				continue
			}
			if stop || res.Err != "" {
				return
			}
			break
		}
	}
	return
}

func (e *Engine) runPath(fn *ssa.Function, args []int64, dec []Decision, pending *[][]Decision, res *Result, deadline time.Time) (stop, restart bool) {
	x := &Exec{e: e, dec: dec, pending: pending, nondetN: map[string]int{}, res: res, journalOn: true, knownActive: map[string]bool{}, deadline: deadline}
	mark := len(e.journal)
	defer func() {
		x.journalOn = true
		x.rollback(mark)
		res.Steps += x.steps
		if r := recover(); r != nil {
			switch r := r.(type) {
			case pathEnd:
			case stopAll:
				stop = true
			case restartPath:
				restart = true
			case engineError:
				res.Err = r.msg + " at " + x.errWhere
				if e.opts.Debug {
					res.Err += "\n" + strings.Join(x.errStack, "\n")
				}
			case mergeAbort:
				res.Err = "internal: merge abort escaped: " + r.why
			default:
				panic(r)
			}
		}
	}()
	vals := make([]Value, len(args))
	for i, a := range args {
		pt := fn.Params[i].Type()
		if w, _, ok := e.lay.intInfo(pt); ok {
			vals[i] = e.C.BV(w, uint64(a))
		} else if isBool(pt) {
			vals[i] = e.C.Bool(a != 0)
		} else {
			efail("harness parameter %d has unsupported type %s", i, pt)
		}
	}
	x.callFunction(fn, vals)
	x.runPendingGo()
	return false, false
}

// ---- function execution ----

func (x *Exec) callFunction(fn *ssa.Function, args []Value) []Value {
	if fn.Blocks == nil {
		efail("call of function without body: %s", fn.String())
	}
	x.e.funcs[fn.String()] = true
	fi := x.e.info(fn)
	fr := &Frame{fn: fn, info: fi, regs: make([]Value, fi.n), caller: x.cur}
	if len(args) != len(fn.Params) {
		efail("internal: arg count mismatch calling %s: %d vs %d", fn, len(args), len(fn.Params))
	}
	for i := range fn.Params {
		fr.regs[i] = args[i]
	}
	depth := 0
	for f := x.cur; f != nil; f = f.caller {
		depth++
	}
	if depth > 400 {
		efail("call depth exceeded")
	}
	saved := x.cur
	x.cur = fr
	defer func() {
		if x.errWhere == "" {
			if r := recover(); r != nil {
				if _, ok := r.(engineError); ok {
					x.errWhere = x.where()
					x.errStack = x.stack()
				}
				x.cur = saved
				panic(r)
			}
		}
		x.cur = saved
	}()
	out := x.run(fr, fn.Blocks[0], nil, nil)
	if out.kind != oRet {
		efail("internal: function did not return")
	}
	return out.rets
}

func (x *Exec) callClosure(c *Closure, args []Value) []Value {
	if c == nil {
		x.oblige(x.e.C.False(), "nil", "call of nil function")
	}
	fn := c.Fn
	if ic, ok := x.e.intercepts[fn.String()]; ok {
		if c.Bound != nil {
			args = append([]Value{c.Bound}, args...)
		}
		return ic(x, fn, args)
	}
	fi := x.e.info(fn)
	_ = fi
	if c.Bound != nil {
		args = append([]Value{c.Bound}, args...)
	}
	if len(c.Env) == 0 {
		return x.callStatic(fn, args)
	}
	// closure with free variables
	if fn.Blocks == nil {
		efail("closure without body %s", fn)
	}
	x.e.funcs[fn.String()] = true
	fr := &Frame{fn: fn, info: x.e.info(fn), caller: x.cur}
	fr.regs = make([]Value, fr.info.n)
	for i := range fn.Params {
		fr.regs[i] = args[i]
	}
	for i := range fn.FreeVars {
		fr.regs[len(fn.Params)+i] = c.Env[i]
	}
	saved := x.cur
	x.cur = fr
	defer func() { x.cur = saved }()
	out := x.run(fr, fn.Blocks[0], nil, nil)
	return out.rets
}

func (x *Exec) callStatic(fn *ssa.Function, args []Value) []Value {
	name := fn.String()
	if ic, ok := x.e.intercepts[name]; ok {
		return ic(x, fn, args)
	}
	if x.e.UFStubs[name] {
		return x.ufStub(fn, args)
	}
	if x.e.Havoc[name] {
		x.e.stubs[name+" (result replaced by an arbitrary value: every outcome of this choice function is explored)"] = true
		res := fn.Signature.Results()
		out := make([]Value, res.Len())
		for i := 0; i < res.Len(); i++ {
			rt := res.At(i).Type()
			nm := x.strConst("havoc_" + sanitize(fn.Name()))
			if isBool(rt) {
				out[i] = x.nondet(nm, 0)
			} else if w, _, ok := x.e.lay.intInfo(rt); ok {
				out[i] = x.nondet(nm, w)
			} else {
				efail("havoc of %s: result type %s unsupported", name, rt)
			}
		}
		return out
	}
	if r, ok := x.e.Redirect[name]; ok && !(x.cur != nil && x.cur.fn != nil && x.cur.fn.String() == r) {
		// (a stub may call the function it replaces: calls made directly from the stub are not redirected)
		i := strings.LastIndex(r, ".")
		pkg := x.e.P.Pkgs[r[:i]]
		if pkg == nil || pkg.Func(r[i+1:]) == nil {
			efail("redirect target %s not found", r)
		}
		x.e.stubs[name+" (replaced by "+r[i+1:]+")"] = true
		tgt := pkg.Func(r[i+1:])
		if _, again := x.e.Redirect[tgt.String()]; again {
			efail("redirect chain at %s", r)
		}
		return x.callStatic(tgt, args)
	}
	if fn.Synthetic == "package initializer" {
		x.e.ensureInit(x, fn.Pkg)
		return nil
	}
	if fn.Blocks == nil {
		efail("no body and no model for %s", name)
	}
	return x.callFunction(fn, args)
}

func (x *Exec) get(fr *Frame, v ssa.Value) Value {
	switch v := v.(type) {
	case *ssa.Const:
		return x.constVal(v)
	case *ssa.Global:
		return Pointer{Obj: x.e.globalObj(x, v)}
	case *ssa.Function:
		return &Closure{Fn: v}
	case *ssa.Builtin:
		return v
	}
	i, ok := fr.info.num[v]
	if !ok {
		efail("internal: unknown ssa value %s", v.Name())
	}
	r := fr.regs[i]
	if pz, isP := r.(poison); isP {
		if pz.site != nil && !x.e.noMerge[pz.site] {
			x.e.noMerge[pz.site] = true
			panic(restartPath{})
		}
		efail("use of unmergeable register %s in %s", v.Name(), fr.fn)
	}
	return r
}

type poison struct{ site ssa.Instruction }

type restartPath struct{}

func (x *Exec) constVal(c *ssa.Const) Value {
	t := c.Type()
	if c.Value == nil {
		return x.e.zeroValue(t)
	}
	if w, signed, ok := x.e.lay.intInfo(t); ok {
		if signed {
			v, _ := constant.Int64Val(constant.ToInt(c.Value))
			return x.e.C.BV(w, uint64(v))
		}
		v, _ := constant.Uint64Val(constant.ToInt(c.Value))
		return x.e.C.BV(w, v)
	}
	switch {
	case isBool(t):
		return x.e.C.Bool(constant.BoolVal(c.Value))
	case isFloat(t):
		f, _ := constant.Float64Val(c.Value)
		if isFloat32(t) {
			f = float64(float32(f))
		}
		return Float{f}
	case isString(t):
		s := constant.StringVal(c.Value)
		return x.strConst(s)
	}
	efail("constant of type %s unsupported", t)
	return nil
}

func (x *Exec) strConst(s string) Str {
	b := make([]*smt.Term, len(s))
	for i := 0; i < len(s); i++ {
		b[i] = x.e.C.BV(8, uint64(s[i]))
	}
	return Str{b}
}

func (x *Exec) set(fr *Frame, v ssa.Value, val Value) {
	fr.regs[fr.info.num[v]] = val
}

// run executes from block b (entered from prev) until the function returns or
// block stop is reached (stop's phis are evaluated before returning oStop).
func (x *Exec) run(fr *Frame, b *ssa.BasicBlock, prev *ssa.BasicBlock, stop *ssa.BasicBlock) outcome {
	skipPhis := false
	for {
		np := fr.info.nphis[b.Index]
		if np > 0 && !skipPhis {
			pi := -1
			for i, p := range b.Preds {
				if p == prev {
					pi = i
					break
				}
			}
			if pi < 0 {
				efail("internal: phi without predecessor")
			}
			if np == 1 {
				phi := b.Instrs[0].(*ssa.Phi)
				x.set(fr, phi, x.get(fr, phi.Edges[pi]))
			} else {
				tmp := make([]Value, np)
				for i := 0; i < np; i++ {
					tmp[i] = x.get(fr, b.Instrs[i].(*ssa.Phi).Edges[pi])
				}
				for i := 0; i < np; i++ {
					x.set(fr, b.Instrs[i].(*ssa.Phi), tmp[i])
				}
			}
		}
		skipPhis = false
		if b == stop {
			return outcome{kind: oStop}
		}
		var next *ssa.BasicBlock
		merged := false
		for _, ins := range b.Instrs[np:] {
			x.steps++
			if x.steps&0xfffff == 0 {
				if x.steps > x.e.opts.MaxSteps {
					efail("step budget exceeded")
				}
				if !x.deadline.IsZero() && time.Now().After(x.deadline) {
					efail("wall-clock budget exceeded")
				}
			}
			if p := ins.Pos(); p.IsValid() {
				fr.pos = p
			}
			switch ins := ins.(type) {
			case *ssa.Jump:
				next = b.Succs[0]
			case *ssa.Return:
				rets := make([]Value, len(ins.Results))
				for i, r := range ins.Results {
					rets[i] = x.get(fr, r)
				}
				return outcome{kind: oRet, rets: rets}
			case *ssa.Panic:
				x.explicitPanic(x.get(fr, ins.X))
			case *ssa.If:
				c := x.get(fr, ins.Cond).(*smt.Term)
				if c.IsTrue() {
					next = b.Succs[0]
				} else if c.IsFalse() {
					next = b.Succs[1]
				} else {
					out, nb, kind := x.symbolicIf(fr, ins, b, c, stop)
					switch kind {
					case ifDone:
						return out
					case ifMerged:
						next, merged = nb, true
					default:
						next = nb
					}
				}
			default:
				x.step(fr, ins)
			}
		}
		if next == nil {
			efail("internal: block without terminator in %s", fr.fn)
		}
		if merged {
			b, prev, skipPhis = next, nil, true
			continue
		}
		if next.Index <= b.Index {
			if fr.back == nil {
				fr.back = map[*ssa.BasicBlock]int{}
			}
			fr.back[next]++
			if fr.back[next] > x.e.opts.Unwind {
				efail("unwind bound exceeded in %s", fr.fn)
			}
		}
		prev, b = b, next
	}
}

const (
	ifNext = iota
	ifMerged
	ifDone
)

func (x *Exec) explicitPanic(v Value) {
	msg := "explicit panic"
	if i, ok := v.(Iface); ok {
		if s, ok := i.V.(Str); ok {
			msg = "panic: " + x.strString(s)
		} else if i.T != nil {
			msg = "panic of type " + i.T.String()
		}
	}
	x.res.Obligations++
	v2, m := x.check(x.e.C.True(), true)
	if v2 == smt.Sat {
		x.violation("panic", msg, m)
	} else if v2 == smt.Unknown {
		x.res.Inconclusive = appendUniq(x.res.Inconclusive, "panic reachability unknown at "+x.where())
	} else {
		x.res.Discharged++
	}
	panic(pathEnd{"panic"})
}

func (x *Exec) strString(s Str) string {
	var sb strings.Builder
	for _, b := range s.B {
		if b.IsConst() {
			sb.WriteByte(byte(b.Val))
		} else {
			sb.WriteByte('?')
		}
	}
	return sb.String()
}

// symbolicIf handles a branch on a symbolic condition.
func (x *Exec) symbolicIf(fr *Frame, ins *ssa.If, b *ssa.BasicBlock, c *smt.Term, stop *ssa.BasicBlock) (outcome, *ssa.BasicBlock, int) {
	C := x.e.C
	canT := x.feasible(c)
	canF := x.feasible(C.BNot(c))
	if !canT && !canF {
		panic(pathEnd{"infeasible"})
	}
	if !canF {
		return outcome{}, b.Succs[0], ifNext
	}
	if !canT {
		return outcome{}, b.Succs[1], ifNext
	}
	join := fr.info.ipdom[b.Index]
	forkHere := x.mergeDepth == 0 && (x.e.ForkAll[fr.fn.String()] || (x.e.ForkIn[fr.fn.String()] && !fr.info.regionSimple(fr.fn, b)))
	if !x.e.noMerge[ins] && !forkHere {
		out, merged := x.tryMerge(fr, ins, b, c, join, stop)
		if merged {
			if out.kind == oRet {
				return out, nil, ifDone
			}
			return outcome{}, join, ifMerged
		}
	}
	if x.decide(c) {
		return outcome{}, b.Succs[0], ifNext
	}
	return outcome{}, b.Succs[1], ifNext
}

type armResult struct {
	dead    bool
	out     outcome
	regs    []Value
	heap    map[jkey]Value
	pcAdds  []*smt.Term
	goN     int
}

type jkey struct {
	o *Object
	i int
}

// runArm executes one arm of a branch under cond up to join, then rolls the
// heap back, returning the arm's effects.
func (x *Exec) runArm(fr *Frame, b, succ *ssa.BasicBlock, cond *smt.Term, join *ssa.BasicBlock, regs0 []Value) (ar armResult) {
	mark := len(x.e.journal)
	pcMark := len(x.pc)
	savedCur := x.cur
	backSave := map[*ssa.BasicBlock]int{}
	for k, v := range fr.back {
		backSave[k] = v
	}
	x.mergeDepth++
	defer func() {
		x.mergeDepth--
		x.cur = savedCur
		if r := recover(); r != nil {
			x.rollback(mark)
			x.pc = x.pc[:pcMark]
			copy(fr.regs, regs0)
			fr.back = backSave
			switch r.(type) {
			case pathEnd:
				ar = armResult{dead: true}
			default:
				panic(r)
			}
		}
	}()
	x.addPC(cond)
	out := x.run(fr, succ, b, join)
	ar.out = out
	ar.regs = append([]Value(nil), fr.regs...)
	ar.heap = map[jkey]Value{}
	j := x.e.journal
	for k := mark; k < len(j); k++ {
		key := jkey{j[k].obj, j[k].idx}
		if _, ok := ar.heap[key]; !ok {
			ar.heap[key] = key.o.rawGet(key.i)
		}
	}
	ar.pcAdds = append([]*smt.Term(nil), x.pc[pcMark+1:]...)
	if cond.IsTrue() {
		ar.pcAdds = append([]*smt.Term(nil), x.pc[pcMark:]...)
	}
	x.rollback(mark)
	x.pc = x.pc[:pcMark]
	copy(fr.regs, regs0)
	fr.back = backSave
	return ar
}

func (x *Exec) tryMerge(fr *Frame, ins *ssa.If, b *ssa.BasicBlock, c *smt.Term, join, stop *ssa.BasicBlock) (out outcome, merged bool) {
	C := x.e.C
	if join == nil && stop != nil {
		// arms may leave the enclosing merge region by returning: not mergeable here
		// (the enclosing region expects to reach `stop`)
	}
	regs0 := append([]Value(nil), fr.regs...)
	top := x.mergeDepth == 0
	goMark := len(x.pendingGo)
	defer func() {
		if r := recover(); r != nil {
			if ma, ok := r.(mergeAbort); ok {
				x.e.noMerge[ins] = true
				copy(fr.regs, regs0)
				x.pendingGo = x.pendingGo[:goMark]
				if top {
					merged = false
					if x.e.opts.Debug {
						fmt.Printf("merge abort at %s: %s\n", x.where(), ma.why)
					}
					return
				}
				panic(r)
			}
			panic(r)
		}
	}()
	target := join
	if stop != nil && join == nil {
		target = nil
	}
	aT := x.runArm(fr, b, b.Succs[0], c, target, regs0)
	aF := x.runArm(fr, b, b.Succs[1], C.BNot(c), target, regs0)
	if len(x.pendingGo) != goMark {
		panic(mergeAbort{"goroutine spawned inside merge arm"})
	}
	x.res.Merges++
	switch {
	case aT.dead && aF.dead:
		panic(pathEnd{"both arms dead"})
	case aT.dead:
		x.addPC(C.BNot(c))
		x.applyArm(fr, aF)
		return aF.out, true
	case aF.dead:
		x.addPC(c)
		x.applyArm(fr, aT)
		return aT.out, true
	}
	if aT.out.kind != aF.out.kind {
		panic(mergeAbort{"arms end differently (return vs join)"})
	}
	// merge registers
	for i := range fr.regs {
		vt, vf := aT.regs[i], aF.regs[i]
		mv, ok := x.mergeVal(c, vt, vf)
		if !ok {
			mv = poison{ins}
		}
		fr.regs[i] = mv
	}
	// merge heap
	keys := map[jkey]bool{}
	for k := range aT.heap {
		keys[k] = true
	}
	for k := range aF.heap {
		keys[k] = true
	}
	for k := range keys {
		cur := k.o.rawGet(k.i)
		vt, okT := aT.heap[k]
		if !okT {
			vt = cur
		}
		vf, okF := aF.heap[k]
		if !okF {
			vf = cur
		}
		if vt == nil {
			vt = x.e.zeroLeaf(k.o.Leaf[k.i%len(k.o.Leaf)])
		}
		if vf == nil {
			vf = x.e.zeroLeaf(k.o.Leaf[k.i%len(k.o.Leaf)])
		}
		mv, ok := x.mergeVal(c, vt, vf)
		if !ok {
			panic(mergeAbort{fmt.Sprintf("heap cell %s[%d] not mergeable", k.o.Name, k.i)})
		}
		x.write(k.o, k.i, mv)
	}
	// merge path-condition additions
	x.addPC(C.Ite(c, C.AndAll(aT.pcAdds), C.AndAll(aF.pcAdds)))
	if aT.out.kind == oRet {
		rets := make([]Value, len(aT.out.rets))
		for i := range rets {
			mv, ok := x.mergeVal(c, aT.out.rets[i], aF.out.rets[i])
			if !ok {
				panic(mergeAbort{"return values not mergeable"})
			}
			rets[i] = mv
		}
		return outcome{kind: oRet, rets: rets}, true
	}
	return outcome{kind: oStop}, true
}

func (x *Exec) applyArm(fr *Frame, a armResult) {
	copy(fr.regs, a.regs)
	for k, v := range a.heap {
		x.write(k.o, k.i, v)
	}
	for _, p := range a.pcAdds {
		x.addPC(p)
	}
}

func samePointer(a, b Pointer) bool {
	if a.Obj != b.Obj || a.Off != b.Off || len(a.Sym) != len(b.Sym) {
		return false
	}
	for i := range a.Sym {
		if a.Sym[i] != b.Sym[i] {
			return false
		}
	}
	return true
}

// mergeVal builds ite(c, a, b) for values; ok=false when not representable.
func (x *Exec) mergeVal(c *smt.Term, a, b Value) (Value, bool) {
	C := x.e.C
	switch av := a.(type) {
	case nil:
		if b == nil {
			return nil, true
		}
		return nil, false
	case *smt.Term:
		bv, ok := b.(*smt.Term)
		if !ok || av.W != bv.W {
			return nil, false
		}
		return C.Ite(c, av, bv), true
	case Float:
		bv, ok := b.(Float)
		if ok && (av.V == bv.V || (av.V != av.V && bv.V != bv.V)) {
			return a, true
		}
		return nil, false
	case Pointer:
		bv, ok := b.(Pointer)
		if ok && samePointer(av, bv) {
			return a, true
		}
		return nil, false
	case Slice:
		bv, ok := b.(Slice)
		if !ok {
			return nil, false
		}
		if av.P.Obj == bv.P.Obj && av.P.Off == bv.P.Off && len(av.P.Sym) == 0 && len(bv.P.Sym) == 0 {
			return Slice{P: av.P, Len: C.Ite(c, av.Len, bv.Len), Cap: C.Ite(c, av.Cap, bv.Cap)}, true
		}
		if samePointer(av.P, bv.P) {
			return Slice{P: av.P, Len: C.Ite(c, av.Len, bv.Len), Cap: C.Ite(c, av.Cap, bv.Cap)}, true
		}
		// same object, different concrete offsets -> symbolic offset
		if av.P.Obj != nil && av.P.Obj == bv.P.Obj && len(av.P.Sym) == 0 && len(bv.P.Sym) == 0 {
			lo := av.P.Off
			if bv.P.Off < lo {
				lo = bv.P.Off
			}
			hi := av.P.Off
			if bv.P.Off > hi {
				hi = bv.P.Off
			}
			idx := C.Ite(c, x.e.intTerm(int64(av.P.Off-lo)), x.e.intTerm(int64(bv.P.Off-lo)))
			p := Pointer{Obj: av.P.Obj, Off: lo, Sym: []SymIdx{{Idx: idx, Stride: 1, N: hi - lo + 1}}}
			return Slice{P: p, Len: C.Ite(c, av.Len, bv.Len), Cap: C.Ite(c, av.Cap, bv.Cap)}, true
		}
		return nil, false
	case Str:
		bv, ok := b.(Str)
		if !ok || len(av.B) != len(bv.B) {
			return nil, false
		}
		r := make([]*smt.Term, len(av.B))
		for i := range r {
			r[i] = C.Ite(c, av.B[i], bv.B[i])
		}
		return Str{r}, true
	case Iface:
		bv, ok := b.(Iface)
		if !ok {
			return nil, false
		}
		if av.T == nil && bv.T == nil {
			return a, true
		}
		if av.T == nil || bv.T == nil || !types.Identical(av.T, bv.T) {
			return nil, false
		}
		m, ok := x.mergeVal(c, av.V, bv.V)
		if !ok {
			return nil, false
		}
		return Iface{av.T, m}, true
	case *Closure:
		bv, ok := b.(*Closure)
		if ok && av == bv {
			return a, true
		}
		if ok && av != nil && bv != nil && av.Fn == bv.Fn && len(av.Env) == 0 && len(bv.Env) == 0 && av.Bound == nil && bv.Bound == nil {
			return a, true
		}
		return nil, false
	case *MapV:
		if bv, ok := b.(*MapV); ok && av == bv {
			return a, true
		}
		return nil, false
	case *Chan:
		if bv, ok := b.(*Chan); ok && av == bv {
			return a, true
		}
		return nil, false
	case Agg:
		bv, ok := b.(Agg)
		if !ok || len(av) != len(bv) {
			return nil, false
		}
		r := make(Agg, len(av))
		for i := range r {
			m, ok := x.mergeVal(c, av[i], bv[i])
			if !ok {
				return nil, false
			}
			r[i] = m
		}
		return r, true
	case Tuple:
		bv, ok := b.(Tuple)
		if !ok || len(av) != len(bv) {
			return nil, false
		}
		r := make(Tuple, len(av))
		for i := range r {
			m, ok := x.mergeVal(c, av[i], bv[i])
			if !ok {
				return nil, false
			}
			r[i] = m
		}
		return r, true
	case *mapIter:
		if bv, ok := b.(*mapIter); ok && av == bv {
			return a, true
		}
		return nil, false
	case *ssa.Builtin:
		return a, true
	case poison:
		return a, true
	}
	return nil, false
}


func (x *Exec) runPendingGo() {
	if !x.e.RaceCheck || x.task > 0 {
		for len(x.pendingGo) > 0 {
			g := x.pendingGo[0]
			x.pendingGo = x.pendingGo[1:]
			g()
		}
		return
	}
	// fork/join region: run the spawned tasks one after another (one admissible schedule) while
	// recording each task's read and write footprints; the tasks are race free for EVERY schedule
	// iff no cell written by one task is read or written by another (they synchronise only at the join).
	x.taskW, x.taskR = nil, nil
	n := 0
	for len(x.pendingGo) > 0 {
		g := x.pendingGo[0]
		x.pendingGo = x.pendingGo[1:]
		n++
		x.taskW = append(x.taskW, map[jkey]bool{})
		x.taskR = append(x.taskR, map[jkey]bool{})
		x.task = n
		g()
		x.task = 0
	}
	x.res.RaceRegions++
	for i := 0; i < n; i++ {
		for j := 0; j < n; j++ {
			if i == j {
				continue
			}
			for k := range x.taskW[i] {
				if x.taskW[j][k] && i < j || x.taskR[j][k] {
					x.res.Obligations++
					_, m := x.check(x.e.C.True(), true)
					what := "read"
					if x.taskW[j][k] {
						what = "written"
					}
					x.violation("race", fmt.Sprintf("data race: cell %s[%d] is written by goroutine %d and %s by goroutine %d of the same fork/join region", k.o.Name, k.i, i+1, what, j+1), m)
					return
				}
			}
		}
	}
	x.res.Obligations++
	x.res.Discharged++
}
