package sym

import (
	"fmt"
	"go/token"
	"go/types"
	"math"

	"golang.org/x/tools/go/ssa"

	"verif/engine/smt"
)

const maxSymCandidates = 4096

func (x *Exec) step(fr *Frame, ins ssa.Instruction) {
	C := x.e.C
	switch ins := ins.(type) {
	case *ssa.Alloc:
		t := ins.Type().(*types.Pointer).Elem()
		o := x.e.allocType(t, ins.Comment)
		x.set(fr, ins, Pointer{Obj: o})
	case *ssa.BinOp:
		x.set(fr, ins, x.binop(ins.Op, x.get(fr, ins.X), x.get(fr, ins.Y), ins.X.Type(), ins.Y.Type()))
	case *ssa.UnOp:
		x.set(fr, ins, x.unop(fr, ins))
	case *ssa.Call:
		rets := x.doCall(fr, &ins.Call)
		switch len(rets) {
		case 0:
		case 1:
			if tp, ok := ins.Type().(*types.Tuple); ok && tp.Len() == 1 {
				x.set(fr, ins, Tuple(rets))
			} else {
				x.set(fr, ins, rets[0])
			}
		default:
			x.set(fr, ins, Tuple(rets))
		}
	case *ssa.ChangeInterface:
		x.set(fr, ins, x.get(fr, ins.X))
	case *ssa.ChangeType:
		x.set(fr, ins, x.get(fr, ins.X))
	case *ssa.Convert:
		x.set(fr, ins, x.convert(x.get(fr, ins.X), ins.X.Type(), ins.Type()))
	case *ssa.Defer:
		call := ins.Call
		fnv, args := x.prepareCall(fr, &call)
		fr.defers = append(fr.defers, func() { x.invoke(fnv, args, &call) })
	case *ssa.RunDefers:
		for len(fr.defers) > 0 {
			d := fr.defers[len(fr.defers)-1]
			fr.defers = fr.defers[:len(fr.defers)-1]
			d()
		}
	case *ssa.Go:
		call := ins.Call
		fnv, args := x.prepareCall(fr, &call)
		x.pendingGo = append(x.pendingGo, func() { x.invoke(fnv, args, &call) })
	case *ssa.Extract:
		x.set(fr, ins, x.get(fr, ins.Tuple).(Tuple)[ins.Index])
	case *ssa.Field:
		a := x.get(fr, ins.X).(Agg)
		st := ins.X.Type().Underlying().(*types.Struct)
		off := x.e.lay.fieldOffset(st, ins.Field)
		ft := st.Field(ins.Field).Type()
		n := x.e.lay.slots(ft)
		if isAgg(ft) {
			x.set(fr, ins, Agg(append([]Value(nil), a[off:off+n]...)))
		} else {
			x.set(fr, ins, a[off])
		}
	case *ssa.FieldAddr:
		p := x.get(fr, ins.X).(Pointer)
		x.nilCheck(p, "field address of nil pointer")
		st := ins.X.Type().Underlying().(*types.Pointer).Elem().Underlying().(*types.Struct)
		p.Off += x.e.lay.fieldOffset(st, ins.Field)
		x.set(fr, ins, p)
	case *ssa.Index:
		// array value or string indexed
		idx := x.get(fr, ins.Index).(*smt.Term)
		idx = x.toInt(idx, ins.Index.Type())
		switch xv := x.get(fr, ins.X).(type) {
		case Agg:
			at := ins.X.Type().Underlying().(*types.Array)
			n := int(at.Len())
			k := x.e.lay.slots(at.Elem())
			x.oblige(C.Cmp(smt.OUlt, idx, x.e.intTerm(int64(n))), "bounds", "array index out of range")
			if idx.IsConst() {
				i := int(idx.Val)
				if isAgg(at.Elem()) {
					x.set(fr, ins, Agg(append([]Value(nil), xv[i*k:(i+1)*k]...)))
				} else {
					x.set(fr, ins, xv[i*k])
				}
			} else {
				r := make(Agg, k)
				for s := 0; s < k; s++ {
					var acc Value = xv[s]
					for i := 1; i < n; i++ {
						m, ok := x.mergeVal(C.Eq(idx, x.e.intTerm(int64(i))), xv[i*k+s], acc)
						if !ok {
							efail("symbolic index into array of non-scalar values")
						}
						acc = m
					}
					r[s] = acc
				}
				if isAgg(at.Elem()) {
					x.set(fr, ins, r)
				} else {
					x.set(fr, ins, r[0])
				}
			}
		case Str:
			x.oblige(C.Cmp(smt.OUlt, idx, x.e.intTerm(int64(len(xv.B)))), "bounds", "string index out of range")
			x.set(fr, ins, x.selectTerm(xv.B, idx))
		default:
			efail("Index on %T", xv)
		}
	case *ssa.IndexAddr:
		idx := x.toInt(x.get(fr, ins.Index).(*smt.Term), ins.Index.Type())
		if x.e.FloatTaint && !idx.IsConst() {
			idx = x.floatTaint(idx) // taint mode: a dirty value used as a table index is a candidate as well
		}
		switch xv := x.get(fr, ins.X).(type) {
		case Pointer: // pointer to array
			x.nilCheck(xv, "index of nil array pointer")
			at := ins.X.Type().Underlying().(*types.Pointer).Elem().Underlying().(*types.Array)
			n := int(at.Len())
			x.oblige(C.Cmp(smt.OUlt, idx, x.e.intTerm(int64(n))), "bounds", "array index out of range")
			x.set(fr, ins, x.ptrAdd(xv, idx, x.e.lay.slots(at.Elem()), n))
		case Slice:
			st := ins.X.Type().Underlying().(*types.Slice)
			x.oblige(C.Cmp(smt.OUlt, idx, xv.Len), "bounds", "slice index out of range")
			n := maxSymCandidates
			if xv.Len.IsConst() {
				n = int(xv.Len.Val)
			} else if xv.P.Obj != nil {
				n = xv.P.Obj.N
			}
			x.set(fr, ins, x.ptrAdd(xv.P, idx, x.e.lay.slots(st.Elem()), n))
		default:
			efail("IndexAddr on %T", xv)
		}
	case *ssa.Lookup:
		x.set(fr, ins, x.lookup(fr, ins))
	case *ssa.MakeChan:
		n := x.get(fr, ins.Size).(*smt.Term)
		x.set(fr, ins, &Chan{Cap: int(x.concretize(n, "chan size"))})
	case *ssa.MakeClosure:
		fn := ins.Fn.(*ssa.Function)
		env := make([]Value, len(ins.Bindings))
		for i, b := range ins.Bindings {
			env[i] = x.get(fr, b)
		}
		x.set(fr, ins, &Closure{Fn: fn, Env: env})
	case *ssa.MakeInterface:
		x.set(fr, ins, Iface{T: ins.X.Type(), V: x.get(fr, ins.X)})
	case *ssa.MakeMap:
		mt := ins.Type().Underlying().(*types.Map)
		x.set(fr, ins, &MapV{KVal: map[string]Value{}, Vals: map[string]Value{}, ElemT: mt.Elem()})
	case *ssa.MakeSlice:
		st := ins.Type().Underlying().(*types.Slice)
		ln := x.toInt(x.get(fr, ins.Len).(*smt.Term), ins.Len.Type())
		cp := x.toInt(x.get(fr, ins.Cap).(*smt.Term), ins.Cap.Type())
		x.oblige(C.Cmp(smt.OSle, x.e.intTerm(0), ln), "makeslice", "makeslice: len out of range")
		x.oblige(C.Cmp(smt.OSle, ln, cp), "makeslice", "makeslice: cap out of range")
		same := ln == cp
		cpv := x.concretize(cp, "make cap")
		if same {
			ln = x.e.intTerm(int64(cpv))
		}
		if cpv > 1<<26 {
			efail("make of %d elements: too large for the engine", cpv)
		}
		lv := x.e.lay.leavesOf(st.Elem())
		o := x.e.newObject(lv, int(cpv)*len(lv), "make "+st.String())
		x.set(fr, ins, Slice{P: Pointer{Obj: o}, Len: ln, Cap: x.e.intTerm(int64(cpv))})
	case *ssa.MapUpdate:
		m := x.get(fr, ins.Map).(*MapV)
		if m == nil {
			x.oblige(C.False(), "nil", "assignment to entry in nil map")
		}
		k := x.mapKey(x.get(fr, ins.Key))
		x.mapSet(m, k, x.get(fr, ins.Key), x.get(fr, ins.Value))
	case *ssa.Next:
		it := x.get(fr, ins.Iter).(*mapIter)
		x.set(fr, ins, x.iterNext(it, ins))
	case *ssa.Range:
		switch v := x.get(fr, ins.X).(type) {
		case *MapV:
			it := &mapIter{m: v}
			if v != nil {
				it.keys = append([]string(nil), v.Keys...)
			}
			x.set(fr, ins, it)
		case Str:
			s := v
			x.set(fr, ins, &mapIter{str: &s})
		default:
			efail("range over %T", v)
		}
	case *ssa.Phi:
		efail("internal: phi in body")
	case *ssa.Send:
		ch := x.get(fr, ins.Chan).(*Chan)
		if ch == nil || ch.Closed {
			efail("send on nil/closed channel")
		}
		ch.Buf = append(ch.Buf, x.get(fr, ins.X))
	case *ssa.Slice:
		x.set(fr, ins, x.sliceOp(fr, ins))
	case *ssa.SliceToArrayPointer:
		s := x.get(fr, ins.X).(Slice)
		at := ins.Type().Underlying().(*types.Pointer).Elem().Underlying().(*types.Array)
		x.oblige(C.Cmp(smt.OSle, x.e.intTerm(at.Len()), s.Len), "bounds", "slice to array pointer: length too short")
		x.set(fr, ins, s.P)
	case *ssa.Store:
		p := x.get(fr, ins.Addr).(Pointer)
		x.store(p, x.get(fr, ins.Val), ins.Val.Type())
	case *ssa.TypeAssert:
		x.set(fr, ins, x.typeAssert(fr, ins))
	case *ssa.DebugRef:
	default:
		efail("unsupported instruction %T", ins)
	}
}

func (x *Exec) nilCheck(p Pointer, msg string) {
	if p.Obj == nil {
		x.res.Obligations++
		v, m := x.check(x.e.C.True(), true)
		if v == smt.Sat {
			x.violation("nil", msg, m)
		} else if v == smt.Unknown {
			x.res.Inconclusive = appendUniq(x.res.Inconclusive, "nil dereference reachability unknown at "+x.where())
		}
		panic(pathEnd{"nil dereference"})
	}
}

// toInt converts an index/length term of integer type t to the engine's int width.
func (x *Exec) toInt(v *smt.Term, t types.Type) *smt.Term {
	_, signed, ok := x.e.lay.intInfo(t)
	if !ok {
		efail("integer expected, got %s", t)
	}
	if v.W > x.e.lay.intW {
		// a uint64 index on a 32-bit platform etc.: keep exactness by checking the high bits
		hi := x.e.C.Extract(v, v.W-1, x.e.lay.intW)
		x.oblige(x.e.C.Eq(hi, x.e.C.BV(hi.W, 0)), "bounds", "index does not fit int")
	}
	return x.e.C.Resize(v, x.e.lay.intW, signed)
}

func (x *Exec) ptrAdd(p Pointer, idx *smt.Term, stride, n int) Pointer {
	if idx.IsConst() {
		p.Off += int(idx.SVal()) * stride
		return p
	}
	np := Pointer{Obj: p.Obj, Off: p.Off}
	np.Sym = append(append([]SymIdx(nil), p.Sym...), SymIdx{Idx: idx, Stride: stride, N: n})
	return np
}

// candidates enumerates (condition, offset) pairs for a symbolic pointer.
func (x *Exec) candidates(p Pointer, span int) ([]*smt.Term, []int) {
	C := x.e.C
	conds := []*smt.Term{C.True()}
	offs := []int{p.Off}
	for _, s := range p.Sym {
		var nc []*smt.Term
		var no []int
		n := s.N
		for ci, c := range conds {
			for i := 0; i < n; i++ {
				off := offs[ci] + i*s.Stride
				if off < 0 || off+span > p.Obj.N {
					continue
				}
				nc = append(nc, C.BAnd(c, C.Eq(s.Idx, x.e.intTerm(int64(i)))))
				no = append(no, off)
			}
			if len(nc) > maxSymCandidates {
				efail("symbolic pointer with more than %d candidates", maxSymCandidates)
			}
		}
		conds, offs = nc, no
	}
	return conds, offs
}

func (x *Exec) selectTerm(vals []*smt.Term, idx *smt.Term) *smt.Term {
	C := x.e.C
	if idx.IsConst() {
		return vals[idx.Val]
	}
	// replicated tables (prefix-code root tables): vals[i] == vals[i mod P] for a power of two P
	if n := len(vals); n > 1 && n&(n-1) == 0 {
		P := n
		for P > 1 {
			h := P / 2
			same := true
			for i := h; i < n && same; i++ {
				same = vals[i] == vals[i-h]
			}
			if !same {
				break
			}
			P = h
		}
		if P == 1 {
			return vals[0]
		}
		if P < n {
			k := 0
			for 1<<uint(k) < P {
				k++
			}
			return x.selectTerm(vals[:P], C.ZExt(C.Extract(idx, k-1, 0), idx.W))
		}
	}
	allConst := true
	for _, v := range vals {
		if !v.IsConst() {
			allConst = false
			break
		}
	}
	if allConst && len(vals) > 4 {
		tv := make([]uint64, len(vals))
		for i, v := range vals {
			tv[i] = v.Val
		}
		if t, ok := x.piecewise(tv, vals[0].W, idx); ok {
			return t
		}
		return C.Select(C.MkTable(vals[0].W, tv), idx)
	}
	acc := vals[len(vals)-1]
	for i := len(vals) - 2; i >= 0; i-- {
		acc = C.Ite(C.Eq(idx, C.BV(idx.W, uint64(i))), vals[i], acc)
	}
	return acc
}

func (x *Exec) load(p Pointer, t types.Type) Value {
	x.nilCheck(p, "nil pointer dereference")
	n := x.e.lay.slots(t)
	if len(p.Sym) == 0 {
		if p.Off < 0 || p.Off+n > p.Obj.N {
			efail("internal: load outside object %s off %d n %d size %d", p.Obj.Name, p.Off, n, p.Obj.N)
		}
		if !isAgg(t) {
			return x.read(p.Obj, p.Off)
		}
		a := make(Agg, n)
		for i := range a {
			a[i] = x.read(p.Obj, p.Off+i)
		}
		return a
	}
	// symbolic address
	if len(p.Sym) == 1 && n*p.Sym[0].N <= 1<<16 {
		// fast path: per-slot table lookup when all candidate cells are scalars
		s := p.Sym[0]
		cnt := s.N
		if lim := (p.Obj.N - p.Off - n + s.Stride) / s.Stride; cnt > lim {
			cnt = lim
		}
		if mb := smt.MaxBits(s.Idx); mb < 20 && cnt > 1<<uint(mb) {
			cnt = 1 << uint(mb) // the index cannot exceed its significant bits (already bounds-checked)
		}
		res := make(Agg, n)
		ok := cnt > 0
		for slot := 0; slot < n && ok; slot++ {
			vals := make([]*smt.Term, 0, cnt)
			for i := 0; i < cnt; i++ {
				v, isT := x.read(p.Obj, p.Off+i*s.Stride+slot).(*smt.Term)
				if !isT {
					ok = false
					break
				}
				vals = append(vals, v)
			}
			if ok {
				res[slot] = x.selectTerm(vals, s.Idx)
			}
		}
		if ok {
			if !isAgg(t) {
				return res[0]
			}
			return res
		}
	}
	conds, offs := x.candidates(p, n)
	if len(offs) == 0 {
		efail("symbolic pointer with no candidate")
	}
	res := make(Agg, n)
	for s := 0; s < n; s++ {
		var acc Value = x.read(p.Obj, offs[len(offs)-1]+s)
		for i := len(offs) - 2; i >= 0; i-- {
			m, ok := x.mergeVal(conds[i], x.read(p.Obj, offs[i]+s), acc)
			if !ok {
				// non-scalar cells: value-split the index instead
				for _, sy := range p.Sym {
					x.concretize(sy.Idx, "symbolic index to non-scalar cell")
				}
				return x.load(x.concretePtr(p), t)
			}
			acc = m
		}
		res[s] = acc
	}
	if !isAgg(t) {
		return res[0]
	}
	return res
}

// concretePtr resolves symbolic components that have become constants under pc
// (after concretize added equalities they are still terms; evaluate via model-free substitution is not possible,
// so concretize returns the value and we rebuild here).
func (x *Exec) concretePtr(p Pointer) Pointer {
	np := Pointer{Obj: p.Obj, Off: p.Off}
	for _, s := range p.Sym {
		v := x.concretize(s.Idx, "symbolic index")
		np.Off += int(int64(v)) * s.Stride
	}
	return np
}

func (x *Exec) store(p Pointer, v Value, t types.Type) {
	x.nilCheck(p, "nil pointer dereference (store)")
	n := x.e.lay.slots(t)
	var vals []Value
	if isAgg(t) {
		vals = v.(Agg)
	} else {
		vals = []Value{v}
	}
	if len(vals) != n {
		efail("internal: store size mismatch %d vs %d for %s", len(vals), n, t)
	}
	if len(p.Sym) == 0 {
		if p.Off < 0 || p.Off+n > p.Obj.N {
			efail("internal: store outside object %s off %d n %d size %d", p.Obj.Name, p.Off, n, p.Obj.N)
		}
		for i := 0; i < n; i++ {
			x.write(p.Obj, p.Off+i, vals[i])
		}
		return
	}
	conds, offs := x.candidates(p, n)
	for ci, off := range offs {
		for s := 0; s < n; s++ {
			old := x.read(p.Obj, off+s)
			m, ok := x.mergeVal(conds[ci], vals[s], old)
			if !ok {
				x.store(x.concretePtr(p), v, t)
				return
			}
			x.write(p.Obj, off+s, m)
		}
	}
}

func (x *Exec) unop(fr *Frame, ins *ssa.UnOp) Value {
	C := x.e.C
	v := x.get(fr, ins.X)
	switch ins.Op {
	case token.MUL:
		return x.load(v.(Pointer), ins.Type())
	case token.NOT:
		return C.BNot(v.(*smt.Term))
	case token.SUB:
		if f, ok := v.(Float); ok {
			return Float{-f.V}
		}
		return C.Neg(v.(*smt.Term))
	case token.XOR:
		return C.Not(v.(*smt.Term))
	case token.ARROW:
		ch := v.(*Chan)
		if ch == nil {
			efail("receive from nil channel")
		}
		if len(ch.Buf) == 0 && !ch.Closed {
			// let pending goroutines run (producer side)
			efail("receive would block")
		}
		var val Value
		ok := len(ch.Buf) > 0
		if ok {
			val = ch.Buf[0]
			ch.Buf = ch.Buf[1:]
		} else {
			val = x.e.zeroValue(ins.X.Type().Underlying().(*types.Chan).Elem())
		}
		if ins.CommaOk {
			return Tuple{val, C.Bool(ok)}
		}
		return val
	}
	efail("unsupported unary op %s", ins.Op)
	return nil
}

func (x *Exec) binop(op token.Token, a, b Value, ta, tb types.Type) Value {
	C := x.e.C
	switch av := a.(type) {
	case *smt.Term:
		bv, ok := b.(*smt.Term)
		if !ok {
			efail("binop operand mismatch %T", b)
		}
		if av.W == 0 { // bool
			switch op {
			case token.EQL:
				return C.Eq(av, bv)
			case token.NEQ:
				return C.BNot(C.Eq(av, bv))
			case token.LAND, token.AND:
				return C.BAnd(av, bv)
			case token.LOR, token.OR:
				return C.BOr(av, bv)
			}
			efail("bool binop %s", op)
		}
		_, signed, _ := x.e.lay.intInfo(ta)
		switch op {
		case token.ADD:
			return C.Add(av, bv)
		case token.SUB:
			return C.Sub(av, bv)
		case token.MUL:
			return C.Mul(av, bv)
		case token.QUO, token.REM:
			x.oblige(C.BNot(C.Eq(bv, C.BV(bv.W, 0))), "div", "integer divide by zero")
			if signed {
				if op == token.QUO {
					return C.Bin(smt.OSDiv, av, bv)
				}
				return C.Bin(smt.OSRem, av, bv)
			}
			if op == token.QUO {
				return C.Bin(smt.OUDiv, av, bv)
			}
			return C.Bin(smt.OURem, av, bv)
		case token.AND:
			return C.Bin(smt.OAnd, av, bv)
		case token.OR:
			return C.Bin(smt.OOr, av, bv)
		case token.XOR:
			return C.Bin(smt.OXor, av, bv)
		case token.AND_NOT:
			return C.Bin(smt.OAnd, av, C.Not(bv))
		case token.SHL, token.SHR:
			_, bsigned, _ := x.e.lay.intInfo(tb)
			if bsigned {
				x.oblige(C.Cmp(smt.OSle, C.BV(bv.W, 0), bv), "shift", "negative shift amount")
			}
			w := av.W
			var cnt *smt.Term
			if bv.W > w {
				big := C.Cmp(smt.OUle, C.BV(bv.W, uint64(w)), bv)
				cnt = C.Ite(big, C.BV(w, uint64(w)), C.Extract(bv, w-1, 0))
			} else {
				cnt = C.ZExt(bv, w)
			}
			if op == token.SHL {
				return C.Bin(smt.OShl, av, cnt)
			}
			if signed {
				return C.Bin(smt.OAShr, av, cnt)
			}
			return C.Bin(smt.OLShr, av, cnt)
		case token.EQL:
			return C.Eq(av, bv)
		case token.NEQ:
			return C.BNot(C.Eq(av, bv))
		case token.LSS:
			if signed {
				return C.Cmp(smt.OSlt, av, bv)
			}
			return C.Cmp(smt.OUlt, av, bv)
		case token.LEQ:
			if signed {
				return C.Cmp(smt.OSle, av, bv)
			}
			return C.Cmp(smt.OUle, av, bv)
		case token.GTR:
			if signed {
				return C.Cmp(smt.OSlt, bv, av)
			}
			return C.Cmp(smt.OUlt, bv, av)
		case token.GEQ:
			if signed {
				return C.Cmp(smt.OSle, bv, av)
			}
			return C.Cmp(smt.OUle, bv, av)
		}
		efail("int binop %s", op)
	case Float:
		bv, ok := b.(Float)
		if !ok {
			efail("float binop operand mismatch")
		}
		f32 := isFloat32(ta)
		rnd := func(f float64) Value {
			if f32 {
				return Float{float64(float32(f))}
			}
			return Float{f}
		}
		switch op {
		case token.ADD:
			return rnd(av.V + bv.V)
		case token.SUB:
			return rnd(av.V - bv.V)
		case token.MUL:
			return rnd(av.V * bv.V)
		case token.QUO:
			return rnd(av.V / bv.V)
		case token.EQL:
			return C.Bool(av.V == bv.V)
		case token.NEQ:
			return C.Bool(av.V != bv.V)
		case token.LSS:
			return C.Bool(av.V < bv.V)
		case token.LEQ:
			return C.Bool(av.V <= bv.V)
		case token.GTR:
			return C.Bool(av.V > bv.V)
		case token.GEQ:
			return C.Bool(av.V >= bv.V)
		}
		efail("float binop %s", op)
	case Str:
		bv := b.(Str)
		switch op {
		case token.ADD:
			return Str{append(append([]*smt.Term(nil), av.B...), bv.B...)}
		case token.EQL, token.NEQ:
			var r *smt.Term
			if len(av.B) != len(bv.B) {
				r = C.False()
			} else {
				r = C.True()
				for i := range av.B {
					r = C.BAnd(r, C.Eq(av.B[i], bv.B[i]))
				}
			}
			if op == token.NEQ {
				r = C.BNot(r)
			}
			return r
		case token.LSS, token.LEQ, token.GTR, token.GEQ:
			sa, sb := x.strString(av), x.strString(bv)
			switch op {
			case token.LSS:
				return C.Bool(sa < sb)
			case token.LEQ:
				return C.Bool(sa <= sb)
			case token.GTR:
				return C.Bool(sa > sb)
			default:
				return C.Bool(sa >= sb)
			}
		}
	case Pointer:
		bv, ok := b.(Pointer)
		if !ok {
			efail("pointer comparison with %T", b)
		}
		eq := samePointer(av, bv)
		if (len(av.Sym) > 0 || len(bv.Sym) > 0) && av.Obj == bv.Obj && !eq {
			efail("comparison of symbolic pointers")
		}
		if op == token.EQL {
			return C.Bool(eq)
		}
		return C.Bool(!eq)
	case Iface:
		bv := b.(Iface)
		eq := x.ifaceEq(av, bv)
		if op == token.EQL {
			return eq
		}
		return C.BNot(eq)
	case Slice:
		// only comparison with nil
		bv := b.(Slice)
		var isnil bool
		if bv.P.Obj == nil && bv.Len.IsConst() {
			isnil = av.P.Obj == nil
		} else {
			isnil = bv.P.Obj == nil
		}
		if op == token.EQL {
			return C.Bool(isnil)
		}
		return C.Bool(!isnil)
	case *Closure:
		bv := b.(*Closure)
		eq := (av == nil) == (bv == nil)
		if op == token.EQL {
			return C.Bool(eq)
		}
		return C.Bool(!eq)
	case *MapV:
		bv := b.(*MapV)
		eq := (av == nil) == (bv == nil)
		if op == token.EQL {
			return C.Bool(eq)
		}
		return C.Bool(!eq)
	case *Chan:
		bv := b.(*Chan)
		eq := av == bv
		if op == token.EQL {
			return C.Bool(eq)
		}
		return C.Bool(!eq)
	case Agg:
		bv := b.(Agg)
		r := C.True()
		for i := range av {
			r = C.BAnd(r, x.valEq(av[i], bv[i]))
		}
		if op == token.NEQ {
			r = C.BNot(r)
		}
		return r
	}
	efail("unsupported binop %s on %T", op, a)
	return nil
}

func (x *Exec) valEq(a, b Value) *smt.Term {
	C := x.e.C
	switch av := a.(type) {
	case *smt.Term:
		return C.Eq(av, b.(*smt.Term))
	case Float:
		return C.Bool(av.V == b.(Float).V)
	case Str:
		return x.binop(token.EQL, a, b, nil, nil).(*smt.Term)
	case Pointer:
		return C.Bool(samePointer(av, b.(Pointer)))
	case Iface:
		return x.ifaceEq(av, b.(Iface))
	case Agg:
		bv := b.(Agg)
		r := C.True()
		for i := range av {
			r = C.BAnd(r, x.valEq(av[i], bv[i]))
		}
		return r
	}
	efail("equality on %T unsupported", a)
	return nil
}

func (x *Exec) ifaceEq(a, b Iface) *smt.Term {
	C := x.e.C
	if a.T == nil || b.T == nil {
		return C.Bool(a.T == nil && b.T == nil)
	}
	if !types.Identical(a.T, b.T) {
		return C.False()
	}
	return x.valEq(a.V, b.V)
}

func (x *Exec) convert(v Value, from, to types.Type) Value {
	C := x.e.C
	lay := x.e.lay
	fu, tu := from.Underlying(), to.Underlying()
	if wt, _, ok := lay.intInfo(to); ok {
		if _, sf, ok2 := lay.intInfo(from); ok2 {
			return C.Resize(v.(*smt.Term), wt, sf)
		}
		if f, ok2 := v.(Float); ok2 {
			_, st, _ := lay.intInfo(to)
			t := math.Trunc(f.V)
			if st {
				return C.BV(wt, uint64(int64(t)))
			}
			if t < 0 {
				return C.BV(wt, uint64(int64(t)))
			}
			return C.BV(wt, uint64(t))
		}
		if p, ok2 := v.(Pointer); ok2 { // unsafe.Pointer -> uintptr
			_ = p
			efail("pointer to integer conversion")
		}
	}
	if isFloat(to) {
		if f, ok := v.(Float); ok {
			if isFloat32(to) {
				return Float{float64(float32(f.V))}
			}
			return f
		}
		if t, ok := v.(*smt.Term); ok {
			if !t.IsConst() {
				if !x.e.FloatTaint {
					efail("symbolic integer converted to float")
				}
				// taint mode (C11 scratch harnesses): a symbolic (dirty) integer reaching floating-point
				// cost code is a CANDIDATE for history dependence; record it with a model and continue
				// with the model's value. Only the native replay can confirm it.
				t = x.floatTaint(t)
			}
			_, sf, _ := lay.intInfo(from)
			var f float64
			if sf {
				f = float64(t.SVal())
			} else {
				f = float64(t.Val)
			}
			if isFloat32(to) {
				f = float64(float32(f))
			}
			return Float{f}
		}
	}
	if isString(to) {
		switch vv := v.(type) {
		case Str:
			return vv
		case Slice: // []byte -> string
			n := int(x.concretize(vv.Len, "string([]byte) length"))
			b := make([]*smt.Term, n)
			et := fu.(*types.Slice).Elem()
			for i := 0; i < n; i++ {
				b[i] = x.load(x.ptrAdd(vv.P, x.e.intTerm(int64(i)), 1, n), et).(*smt.Term)
			}
			return Str{b}
		case *smt.Term: // string(rune)
			if !vv.IsConst() {
				efail("string(symbolic rune)")
			}
			return x.strConst(string(rune(vv.SVal())))
		}
	}
	if ts, ok := tu.(*types.Slice); ok {
		if s, ok := v.(Str); ok { // string -> []byte
			lv := lay.leavesOf(ts.Elem())
			o := x.e.newObject(lv, len(s.B), "[]byte(string)")
			for i, b := range s.B {
				o.rawSet(i, b)
			}
			n := x.e.intTerm(int64(len(s.B)))
			return Slice{P: Pointer{Obj: o}, Len: n, Cap: n}
		}
		if s, ok := v.(Slice); ok {
			return s
		}
	}
	if _, ok := tu.(*types.Pointer); ok {
		if p, ok := v.(Pointer); ok {
			return p
		}
	}
	if b, ok := tu.(*types.Basic); ok && b.Kind() == types.UnsafePointer {
		if p, ok := v.(Pointer); ok {
			return p
		}
	}
	efail("unsupported conversion %s -> %s (%T)", from, to, v)
	return nil
}

func (x *Exec) sliceOp(fr *Frame, ins *ssa.Slice) Value {
	C := x.e.C
	iw := x.e.lay.intW
	var lo, hi, mx *smt.Term
	if ins.Low != nil {
		lo = x.toInt(x.get(fr, ins.Low).(*smt.Term), ins.Low.Type())
	} else {
		lo = C.BV(iw, 0)
	}
	if ins.High != nil {
		hi = x.toInt(x.get(fr, ins.High).(*smt.Term), ins.High.Type())
	}
	if ins.Max != nil {
		mx = x.toInt(x.get(fr, ins.Max).(*smt.Term), ins.Max.Type())
	}
	switch xv := x.get(fr, ins.X).(type) {
	case Str:
		n := x.e.intTerm(int64(len(xv.B)))
		if hi == nil {
			hi = n
		}
		x.oblige(C.Cmp(smt.OUle, hi, n), "bounds", "string slice bounds out of range (high)")
		x.oblige(C.Cmp(smt.OUle, lo, hi), "bounds", "string slice bounds out of range (low)")
		l := x.concretize(lo, "string slice low")
		h := x.concretize(hi, "string slice high")
		return Str{xv.B[l:h]}
	case Pointer: // pointer to array
		x.nilCheck(xv, "slice of nil array pointer")
		at := ins.X.Type().Underlying().(*types.Pointer).Elem().Underlying().(*types.Array)
		n := x.e.intTerm(at.Len())
		return x.sliceCommon(xv, n, n, lo, hi, mx, x.e.lay.slots(at.Elem()), int(at.Len()))
	case Slice:
		st := ins.X.Type().Underlying().(*types.Slice)
		nmax := maxSymCandidates
		if xv.Cap.IsConst() {
			nmax = int(xv.Cap.Val)
		}
		r := x.sliceCommon(xv.P, xv.Len, xv.Cap, lo, hi, mx, x.e.lay.slots(st.Elem()), nmax)
		if xv.P.Obj == nil {
			s := r.(Slice)
			s.P = Pointer{}
			return s
		}
		return r
	}
	efail("slice of %T", x.get(fr, ins.X))
	return nil
}

func (x *Exec) sliceCommon(p Pointer, ln, cp, lo, hi, mx *smt.Term, stride, nmax int) Value {
	C := x.e.C
	if hi == nil {
		hi = ln
	}
	if mx != nil {
		x.oblige(C.Cmp(smt.OUle, mx, cp), "bounds", "slice bounds out of range (max > cap)")
		x.oblige(C.Cmp(smt.OUle, hi, mx), "bounds", "slice bounds out of range (high > max)")
	} else {
		x.oblige(C.Cmp(smt.OUle, hi, cp), "bounds", "slice bounds out of range (high > cap)")
		mx = cp
	}
	x.oblige(C.Cmp(smt.OUle, lo, hi), "bounds", "slice bounds out of range (low > high)")
	np := p
	if p.Obj != nil {
		np = x.ptrAdd(p, lo, stride, nmax+1)
	}
	return Slice{P: np, Len: C.Sub(hi, lo), Cap: C.Sub(mx, lo)}
}

func (x *Exec) typeAssert(fr *Frame, ins *ssa.TypeAssert) Value {
	C := x.e.C
	v := x.get(fr, ins.X).(Iface)
	ok := false
	var res Value
	if v.T != nil {
		if types.IsInterface(ins.AssertedType) {
			it := ins.AssertedType.Underlying().(*types.Interface)
			ok = types.Implements(v.T, it)
			res = v
		} else {
			ok = types.Identical(v.T, ins.AssertedType)
			res = v.V
		}
	}
	if ins.CommaOk {
		if !ok {
			res = x.e.zeroValue(ins.AssertedType)
		}
		return Tuple{res, C.Bool(ok)}
	}
	if !ok {
		x.explicitPanic(Iface{T: types.Typ[types.String], V: x.strConst(fmt.Sprintf("interface conversion: %v is not %v", v.T, ins.AssertedType))})
	}
	return res
}

// ---- maps ----

func (x *Exec) mapKey(k Value) string {
	switch kv := k.(type) {
	case *smt.Term:
		if !kv.IsConst() {
			return fmt.Sprintf("t%d:%d", kv.W, kv.ID) // symbolic key: identified by its (hash-consed) term
		}
		return fmt.Sprintf("i%d:%d", kv.W, kv.Val)
	case Str:
		for _, b := range kv.B {
			x.concretize(b, "map key byte")
		}
		return "s:" + x.strString(kv)
	case Float:
		return fmt.Sprintf("f:%v", kv.V)
	case Agg:
		s := "a:"
		for _, e := range kv {
			s += x.mapKey(e) + ","
		}
		return s
	case Iface:
		if kv.T == nil {
			return "nil"
		}
		return "if:" + kv.T.String() + ":" + x.mapKey(kv.V)
	case Pointer:
		if kv.Obj == nil {
			return "p:nil"
		}
		return fmt.Sprintf("p:%d:%d", kv.Obj.ID, kv.Off)
	}
	efail("map key of %T unsupported", k)
	return ""
}

func (x *Exec) mapSet(m *MapV, k string, kv, v Value) {
	// maps are not journaled cell-wise: snapshot-free approach = forbid map mutation inside merges
	if x.mergeDepth > 0 {
		panic(mergeAbort{"map update inside merge arm"})
	}
	if _, ok := m.Vals[k]; !ok {
		// a new key must be provably different from every existing integer key (symbolic or not)
		if kt, isT := kv.(*smt.Term); isT {
			for _, ok2 := range m.Keys {
				if ot, isT2 := m.KVal[ok2].(*smt.Term); isT2 && (!kt.IsConst() || !ot.IsConst()) {
					if x.feasible(x.e.C.Eq(kt, ot)) {
						efail("map update with a symbolic key that may alias an existing key")
					}
				}
			}
		}
		m.Keys = append(m.Keys, k)
		m.KVal[k] = kv
	}
	m.Vals[k] = v
}

func (x *Exec) lookup(fr *Frame, ins *ssa.Lookup) Value {
	C := x.e.C
	switch xv := x.get(fr, ins.X).(type) {
	case Str:
		idx := x.toInt(x.get(fr, ins.Index).(*smt.Term), ins.Index.Type())
		x.oblige(C.Cmp(smt.OUlt, idx, x.e.intTerm(int64(len(xv.B)))), "bounds", "string index out of range")
		return x.selectTerm(xv.B, idx)
	case *MapV:
		mt := ins.X.Type().Underlying().(*types.Map)
		var v Value
		ok := false
		if xv != nil {
			kval := x.get(fr, ins.Index)
			k := x.mapKey(kval)
			v, ok = xv.Vals[k]
			if kt, isT := kval.(*smt.Term); isT && !ok {
				// symbolic lookup: ite chain over the integer-keyed entries
				anySym := !kt.IsConst()
				for _, ek := range xv.Keys {
					if ot, isT2 := xv.KVal[ek].(*smt.Term); isT2 && !ot.IsConst() {
						anySym = true
					}
				}
				if anySym {
					var acc Value = x.e.zeroValue(mt.Elem())
					found := C.False()
					for _, ek := range xv.Keys {
						ot, isT2 := xv.KVal[ek].(*smt.Term)
						if !isT2 {
							continue
						}
						ev, present := xv.Vals[ek]
						if !present {
							continue
						}
						eq := C.Eq(kt, ot)
						m, mok := x.mergeVal(eq, ev, acc)
						if !mok {
							efail("symbolic map lookup over non-scalar values")
						}
						acc = m
						found = C.BOr(found, eq)
					}
					if ins.CommaOk {
						return Tuple{acc, found}
					}
					return acc
				}
			}
		}
		if !ok {
			v = x.e.zeroValue(mt.Elem())
		}
		if ins.CommaOk {
			return Tuple{v, C.Bool(ok)}
		}
		return v
	}
	efail("lookup on %T", x.get(fr, ins.X))
	return nil
}

func (x *Exec) iterNext(it *mapIter, ins *ssa.Next) Value {
	C := x.e.C
	if ins.IsString {
		s := it.str
		if it.pos >= len(s.B) {
			return Tuple{C.False(), x.e.intTerm(0), C.BV(32, 0)}
		}
		b := s.B[it.pos]
		if !b.IsConst() || b.Val >= 0x80 {
			efail("range over non-ASCII/symbolic string")
		}
		r := Tuple{C.True(), x.e.intTerm(int64(it.pos)), C.BV(32, b.Val)}
		it.pos++
		return r
	}
	for it.pos < len(it.keys) {
		k := it.keys[it.pos]
		it.pos++
		if v, ok := it.m.Vals[k]; ok {
			return Tuple{C.True(), it.m.KVal[k], v}
		}
	}
	return Tuple{C.False(), nil, nil}
}

// piecewise recognises constant tables that are piecewise linear with slopes -1, 0, +1 (clip,
// saturation and abs tables) and returns the closed form  ite(idx < b1, e1, ite(idx < b2, e2, ...)).
func (x *Exec) piecewise(vals []uint64, w int, idx *smt.Term) (*smt.Term, bool) {
	C := x.e.C
	if w == 0 || len(vals) < 16 {
		return nil, false
	}
	m := uint64(1)<<uint(w) - 1
	if w >= 64 {
		m = ^uint64(0)
	}
	type seg struct {
		start int
		base  uint64
		slope uint64 // 0, 1 or m (= -1)
	}
	var segs []seg
	cur := seg{start: 0, base: vals[0], slope: 2} // slope 2 = undetermined
	for i := 1; i < len(vals); i++ {
		d := (vals[i] - vals[i-1]) & m
		if d != 0 && d != 1 && d != m {
			return nil, false
		}
		if cur.slope == 2 {
			cur.slope = d
			continue
		}
		if d != cur.slope {
			segs = append(segs, cur)
			cur = seg{start: i - 1, base: vals[i-1], slope: d}
			// the point i-1 belongs to both segments; start the new one at i-1 for a valid formula
			if len(segs) > 7 {
				return nil, false
			}
		}
	}
	if cur.slope == 2 {
		cur.slope = 0
	}
	segs = append(segs, cur)
	if len(segs) > 8 {
		return nil, false
	}
	cw := idx.W
	if w > cw {
		cw = w
	}
	ix := C.Resize(idx, cw, false)
	expr := func(sg seg) *smt.Term {
		off := C.Sub(ix, C.BV(cw, uint64(sg.start)))
		var v *smt.Term
		switch sg.slope {
		case 0:
			v = C.BV(cw, sg.base)
		case 1:
			v = C.Add(C.BV(cw, sg.base), off)
		default:
			v = C.Sub(C.BV(cw, sg.base), off)
		}
		return C.Resize(v, w, false)
	}
	acc := expr(segs[len(segs)-1])
	for k := len(segs) - 2; k >= 0; k-- {
		// segment k is valid for idx <= segs[k+1].start
		acc = C.Ite(C.Cmp(smt.OUle, ix, C.BV(cw, uint64(segs[k+1].start))), expr(segs[k]), acc)
	}
	return acc, true
}

func (x *Exec) floatTaint(t *smt.Term) *smt.Term {
	v, m := x.check(x.e.C.True(), true)
	if v != smt.Sat {
		efail("float taint: cannot obtain a model")
	}
	val := x.e.C.Eval(t, m, map[int]uint64{})
	// prefer a non-zero witness if one exists (dirt that is zero is indistinguishable from fresh state)
	if val == 0 {
		if v2, m2 := x.check(x.e.C.BNot(x.e.C.Eq(t, x.e.C.BV(t.W, 0))), true); v2 == smt.Sat {
			m = m2
			val = x.e.C.Eval(t, m2, map[int]uint64{})
		}
	}
	c := x.e.C.BV(t.W, val)
	x.addPC(x.e.C.Eq(t, c))
	if !x.tainted {
		x.tainted = true
		x.res.Obligations++
		x.violation("candidate", "a value left over in pooled scratch state reaches floating-point cost code (possible dependence on call history)", m)
	}
	return c
}
