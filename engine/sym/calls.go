package sym

import (
	"fmt"
	"go/types"
	"math"
	"math/bits"
	"os"
	"sort"
	"strings"

	"golang.org/x/tools/go/ssa"

	"verif/engine/smt"
)

type wrapErrMethod string

type intercept func(x *Exec, fn *ssa.Function, args []Value) []Value

// prepareCall evaluates the callee and arguments of a call.
func (x *Exec) prepareCall(fr *Frame, call *ssa.CallCommon) (Value, []Value) {
	args := make([]Value, 0, len(call.Args)+1)
	var fnv Value
	if call.IsInvoke() {
		recv := x.get(fr, call.Value).(Iface)
		if recv.T == nil {
			x.nilCheck(Pointer{}, "method call on nil interface")
		}
		if recv.T == wrapErrType {
			return wrapErrMethod(call.Method.Name()), []Value{recv.V}
		}
		m := x.e.P.Prog.LookupMethod(recv.T, call.Method.Pkg(), call.Method.Name())
		if m == nil {
			efail("method %s not found on %s", call.Method.Name(), recv.T)
		}
		fnv = &Closure{Fn: m}
		args = append(args, recv.V)
	} else {
		fnv = x.get(fr, call.Value)
	}
	for _, a := range call.Args {
		args = append(args, x.get(fr, a))
	}
	return fnv, args
}

func (x *Exec) doCall(fr *Frame, call *ssa.CallCommon) []Value {
	fnv, args := x.prepareCall(fr, call)
	return x.invoke(fnv, args, call)
}

func (x *Exec) invoke(fnv Value, args []Value, call *ssa.CallCommon) []Value {
	switch f := fnv.(type) {
	case *ssa.Builtin:
		return x.builtin(f, args, call)
	case *Closure:
		if f == nil {
			x.nilCheck(Pointer{}, "call of nil function value")
		}
		return x.callClosure(f, args)
	case wrapErrMethod:
		p := args[0].(Pointer)
		if f == "Error" {
			return []Value{x.read(p.Obj, 0)}
		}
		return []Value{x.read(p.Obj, 1)}
	}
	efail("call of %T", fnv)
	return nil
}

func (x *Exec) builtin(b *ssa.Builtin, args []Value, call *ssa.CallCommon) []Value {
	C := x.e.C
	switch b.Name() {
	case "len":
		switch v := args[0].(type) {
		case Slice:
			return []Value{v.Len}
		case Str:
			return []Value{x.e.intTerm(int64(len(v.B)))}
		case *MapV:
			if v == nil {
				return []Value{x.e.intTerm(0)}
			}
			return []Value{x.e.intTerm(int64(len(v.Vals)))}
		case Pointer: // *array
			at := call.Args[0].Type().Underlying().(*types.Pointer).Elem().Underlying().(*types.Array)
			return []Value{x.e.intTerm(at.Len())}
		case Agg:
			at := call.Args[0].Type().Underlying().(*types.Array)
			return []Value{x.e.intTerm(at.Len())}
		case *Chan:
			return []Value{x.e.intTerm(int64(len(v.Buf)))}
		}
	case "cap":
		switch v := args[0].(type) {
		case Slice:
			return []Value{v.Cap}
		case Pointer:
			at := call.Args[0].Type().Underlying().(*types.Pointer).Elem().Underlying().(*types.Array)
			return []Value{x.e.intTerm(at.Len())}
		case *Chan:
			return []Value{x.e.intTerm(int64(v.Cap))}
		}
	case "copy":
		dst := args[0].(Slice)
		var n int
		et := call.Args[0].Type().Underlying().(*types.Slice).Elem()
		k := x.e.lay.slots(et)
		switch src := args[1].(type) {
		case Slice:
			nt := C.Ite(C.Cmp(smt.OSlt, dst.Len, src.Len), dst.Len, src.Len)
			n = int(x.concretize(nt, "copy length"))
			if n == 0 {
				return []Value{x.e.intTerm(0)}
			}
			// read all first (overlap-safe)
			tmp := make([]Value, n)
			for i := 0; i < n; i++ {
				tmp[i] = x.load(x.ptrAdd(src.P, x.e.intTerm(int64(i)), k, n), et)
			}
			for i := 0; i < n; i++ {
				x.store(x.ptrAdd(dst.P, x.e.intTerm(int64(i)), k, n), tmp[i], et)
			}
		case Str:
			nt := C.Ite(C.Cmp(smt.OSlt, dst.Len, x.e.intTerm(int64(len(src.B)))), dst.Len, x.e.intTerm(int64(len(src.B))))
			n = int(x.concretize(nt, "copy length"))
			for i := 0; i < n; i++ {
				x.store(x.ptrAdd(dst.P, x.e.intTerm(int64(i)), k, n), src.B[i], et)
			}
		}
		return []Value{x.e.intTerm(int64(n))}
	case "append":
		s := args[0].(Slice)
		st := call.Args[0].Type().Underlying().(*types.Slice)
		et := st.Elem()
		k := x.e.lay.slots(et)
		var add []Value
		switch src := args[1].(type) {
		case Slice:
			n := int(x.concretize(src.Len, "append source length"))
			for i := 0; i < n; i++ {
				add = append(add, x.load(x.ptrAdd(src.P, x.e.intTerm(int64(i)), k, n), et))
			}
		case Str:
			for _, bt := range src.B {
				add = append(add, bt)
			}
		}
		if len(add) == 0 {
			return []Value{s}
		}
		ln := int(x.concretize(s.Len, "append length"))
		cp := int(x.concretize(s.Cap, "append cap"))
		if ln+len(add) <= cp && s.P.Obj != nil {
			for i, v := range add {
				x.store(x.ptrAdd(s.P, x.e.intTerm(int64(ln+i)), k, cp), v, et)
			}
			return []Value{Slice{P: s.P, Len: x.e.intTerm(int64(ln + len(add))), Cap: s.Cap}}
		}
		ncap := 2 * cp
		if ncap < ln+len(add) {
			ncap = ln + len(add)
		}
		lv := x.e.lay.leavesOf(et)
		o := x.e.newObject(lv, ncap*len(lv), "append "+st.String())
		np := Pointer{Obj: o}
		for i := 0; i < ln; i++ {
			x.store(x.ptrAdd(np, x.e.intTerm(int64(i)), k, ncap), x.load(x.ptrAdd(s.P, x.e.intTerm(int64(i)), k, ln), et), et)
		}
		for i, v := range add {
			x.store(x.ptrAdd(np, x.e.intTerm(int64(ln+i)), k, ncap), v, et)
		}
		return []Value{Slice{P: np, Len: x.e.intTerm(int64(ln + len(add))), Cap: x.e.intTerm(int64(ncap))}}
	case "clear":
		switch v := args[0].(type) {
		case Slice:
			et := call.Args[0].Type().Underlying().(*types.Slice).Elem()
			k := x.e.lay.slots(et)
			n := int(x.concretize(v.Len, "clear length"))
			z := x.e.zeroValue(et)
			for i := 0; i < n; i++ {
				x.store(x.ptrAdd(v.P, x.e.intTerm(int64(i)), k, n), z, et)
			}
		case *MapV:
			if x.mergeDepth > 0 {
				panic(mergeAbort{"map clear in merge"})
			}
			v.Keys = nil
			v.Vals = map[string]Value{}
			v.KVal = map[string]Value{}
		}
		return nil
	case "delete":
		m := args[0].(*MapV)
		if m != nil {
			if x.mergeDepth > 0 {
				panic(mergeAbort{"map delete in merge"})
			}
			k := x.mapKey(args[1])
			delete(m.Vals, k)
			delete(m.KVal, k)
		}
		return nil
	case "close":
		args[0].(*Chan).Closed = true
		return nil
	case "min", "max":
		acc := args[0]
		for _, a := range args[1:] {
			if af, ok := a.(Float); ok {
				cf := acc.(Float)
				if b.Name() == "min" {
					acc = Float{math.Min(cf.V, af.V)}
				} else {
					acc = Float{math.Max(cf.V, af.V)}
				}
				continue
			}
			at, ct := a.(*smt.Term), acc.(*smt.Term)
			_, signed, _ := x.e.lay.intInfo(call.Args[0].Type())
			var lt *smt.Term
			if signed {
				lt = C.Cmp(smt.OSlt, at, ct)
			} else {
				lt = C.Cmp(smt.OUlt, at, ct)
			}
			if b.Name() == "min" {
				acc = C.Ite(lt, at, ct)
			} else {
				acc = C.Ite(lt, ct, at)
			}
		}
		return []Value{acc}
	case "print", "println":
		return nil
	case "ssa:wrapnilchk":
		return []Value{args[0]}
	case "panic":
		x.explicitPanic(args[0])
	case "recover":
		return []Value{Iface{}}
	case "Slice": // unsafe.Slice
		p := args[0].(Pointer)
		n := x.toInt(args[1].(*smt.Term), call.Args[1].Type())
		return []Value{Slice{P: p, Len: n, Cap: n}}
	case "SliceData":
		return []Value{args[0].(Slice).P}
	case "String":
		p := args[0].(Pointer)
		n := int(x.concretize(args[1].(*smt.Term), "unsafe.String length"))
		bs := make([]*smt.Term, n)
		for i := range bs {
			bs[i] = x.load(x.ptrAdd(p, x.e.intTerm(int64(i)), 1, n), types.Typ[types.Uint8]).(*smt.Term)
		}
		return []Value{Str{bs}}
	}
	efail("unsupported builtin %s on %T", b.Name(), args[0])
	return nil
}

// ufStub replaces a function by an uninterpreted function of its integer
// arguments (used for proved kernels and for deterministic opaque callees).
func (x *Exec) ufStub(fn *ssa.Function, args []Value) []Value {
	x.e.stubs[fn.String()+" (uninterpreted)"] = true
	var ts []*smt.Term
	var flat func(v Value)
	flat = func(v Value) {
		switch vv := v.(type) {
		case *smt.Term:
			ts = append(ts, vv)
		case Agg:
			for _, e := range vv {
				flat(e)
			}
		default:
			efail("UF stub %s: argument of type %T unsupported", fn, v)
		}
	}
	for _, a := range args {
		flat(a)
	}
	res := fn.Signature.Results()
	out := make([]Value, res.Len())
	leafUF := func(rt types.Type, name string) Value {
		w := 0
		if !isBool(rt) {
			ww, _, ok := x.e.lay.intInfo(rt)
			if !ok {
				efail("UF stub %s: result type %s unsupported", fn, rt)
			}
			w = ww
		}
		return x.e.C.UF(name, w, ts...)
	}
	for i := 0; i < res.Len(); i++ {
		rt := res.At(i).Type()
		base := fmt.Sprintf("uf_%s_%d", sanitize(fn.String()), i)
		if isAgg(rt) {
			lv := x.e.lay.leavesOf(rt)
			a := make(Agg, len(lv))
			for j, lt := range lv {
				a[j] = leafUF(lt, fmt.Sprintf("%s_%d", base, j))
			}
			out[i] = a
		} else {
			out[i] = leafUF(rt, base)
		}
	}
	return out
}

func sanitize(s string) string {
	var sb strings.Builder
	for _, r := range s {
		if r >= 'a' && r <= 'z' || r >= 'A' && r <= 'Z' || r >= '0' && r <= '9' {
			sb.WriteRune(r)
		} else {
			sb.WriteByte('_')
		}
	}
	return sb.String()
}

const apiPkg = "github.com/deepteams/webp/internal/verifapi."

func (x *Exec) nondet(name Value, w int) *smt.Term {
	n := x.strString(name.(Str))
	k := x.nondetN[n]
	x.nondetN[n] = k + 1
	x.res.Nondets++
	full := fmt.Sprintf("%s#%d", n, k)
	return x.e.C.Var(full, w)
}

func floatFn1(f func(float64) float64) intercept {
	return func(x *Exec, fn *ssa.Function, args []Value) []Value {
		return []Value{Float{f(args[0].(Float).V)}}
	}
}

func builtinIntercepts() map[string]intercept {
	m := map[string]intercept{}
	// ---- harness API ----
	for _, d := range []struct {
		n string
		w int
	}{{"U8", 8}, {"U16", 16}, {"U32", 32}, {"U64", 64}, {"I8", 8}, {"I16", 16}, {"I32", 32}, {"I64", 64}} {
		w := d.w
		m[apiPkg+d.n] = func(x *Exec, fn *ssa.Function, args []Value) []Value {
			return []Value{x.nondet(args[0], w)}
		}
	}
	m[apiPkg+"Int"] = func(x *Exec, fn *ssa.Function, args []Value) []Value {
		return []Value{x.nondet(args[0], x.e.lay.intW)}
	}
	m[apiPkg+"Bool"] = func(x *Exec, fn *ssa.Function, args []Value) []Value {
		return []Value{x.nondet(args[0], 0)}
	}
	m[apiPkg+"Bytes"] = func(x *Exec, fn *ssa.Function, args []Value) []Value {
		n := int(x.concretize(args[1].(*smt.Term), "Bytes length"))
		lv := []types.Type{types.Typ[types.Uint8]}
		o := x.e.newObject(lv, n, "nondet bytes")
		for i := 0; i < n; i++ {
			o.rawSet(i, x.nondet(args[0], 8))
		}
		nt := x.e.intTerm(int64(n))
		return []Value{Slice{P: Pointer{Obj: o}, Len: nt, Cap: nt}}
	}
	m[apiPkg+"Assume"] = func(x *Exec, fn *ssa.Function, args []Value) []Value {
		c := args[0].(*smt.Term)
		x.addPC(c)
		if !c.IsTrue() && !x.feasible(x.e.C.True()) {
			panic(pathEnd{"assumption infeasible"})
		}
		return nil
	}
	m[apiPkg+"Assert"] = func(x *Exec, fn *ssa.Function, args []Value) []Value {
		c := args[0].(*smt.Term)
		msg := x.strString(args[1].(Str))
		if c.IsTrue() {
			x.res.Obligations++
			x.res.Discharged++
			return nil
		}
		x.oblige(c, "assert", msg)
		return nil
	}
	m[apiPkg+"Candidate"] = func(x *Exec, fn *ssa.Function, args []Value) []Value {
		// sufficient-condition obligation: a counterexample is only a candidate and must be confirmed natively
		c := args[0].(*smt.Term)
		msg := x.strString(args[1].(Str))
		if c.IsTrue() {
			x.res.Obligations++
			x.res.Discharged++
			return nil
		}
		x.oblige(c, "candidate", msg)
		return nil
	}
	m[apiPkg+"Cover"] = func(x *Exec, fn *ssa.Function, args []Value) []Value {
		c := args[0].(*smt.Term)
		msg := x.strString(args[1].(Str))
		if x.res.Covers[msg] {
			return nil
		}
		if _, ok := x.res.Covers[msg]; !ok {
			x.res.Covers[msg] = false
		}
		if c.IsTrue() || (!c.IsFalse() && func() bool { v, _ := x.check(c, false); return v == smt.Sat }()) {
			x.res.Covers[msg] = true
		}
		return nil
	}
	m[apiPkg+"Known"] = func(x *Exec, fn *ssa.Function, args []Value) []Value {
		// Known(id, cond): marks the rest of the path as inside known-finding region id when cond holds.
		id := x.strString(args[0].(Str))
		c := args[1].(*smt.Term)
		if c.IsFalse() {
			return nil
		}
		if c.IsTrue() {
			x.knownActive[id] = true
			return nil
		}
		// fork so that region and non-region are separate paths
		if x.feasible(c) && x.feasible(x.e.C.BNot(c)) {
			if x.decide(c) {
				x.knownActive[id] = true
			}
		} else if x.feasible(c) {
			x.knownActive[id] = true
		}
		return nil
	}
	m[apiPkg+"Bound"] = func(x *Exec, fn *ssa.Function, args []Value) []Value {
		x.res.Bounds[x.strString(args[0].(Str))] = args[1].(*smt.Term).SVal()
		return nil
	}
	m[apiPkg+"Sample"] = func(x *Exec, fn *ssa.Function, args []Value) []Value {
		if len(x.res.Samples) < 8 {
			x.res.Samples = appendUniq(x.res.Samples, x.strString(args[0].(Str)))
		}
		return nil
	}
	m[apiPkg+"UF1"] = func(x *Exec, fn *ssa.Function, args []Value) []Value {
		return []Value{x.e.C.UF("huf_"+sanitize(x.strString(args[0].(Str))), 32, args[1].(*smt.Term))}
	}
	m[apiPkg+"UF2"] = func(x *Exec, fn *ssa.Function, args []Value) []Value {
		return []Value{x.e.C.UF("huf_"+sanitize(x.strString(args[0].(Str))), 32, args[1].(*smt.Term), args[2].(*smt.Term))}
	}
	m[apiPkg+"UF3"] = func(x *Exec, fn *ssa.Function, args []Value) []Value {
		return []Value{x.e.C.UF("huf_"+sanitize(x.strString(args[0].(Str))), 32, args[1].(*smt.Term), args[2].(*smt.Term), args[3].(*smt.Term))}
	}
	m[apiPkg+"Split8"] = func(x *Exec, fn *ssa.Function, args []Value) []Value {
		t := args[0].(*smt.Term)
		return []Value{x.e.C.BV(t.W, x.concretize(t, "Split8"))}
	}
	m[apiPkg+"Havoc"] = func(x *Exec, fn *ssa.Function, args []Value) []Value {
		iv := args[0].(Iface)
		pt, ok := iv.T.Underlying().(*types.Pointer)
		if !ok {
			efail("Havoc needs a pointer")
		}
		p := iv.V.(Pointer)
		x.havoc(p, pt.Elem(), 0)
		return nil
	}
	m[apiPkg+"SameExcept"] = func(x *Exec, fn *ssa.Function, args []Value) []Value {
		ia, ib := args[0].(Iface), args[1].(Iface)
		pt, ok := ia.T.Underlying().(*types.Pointer)
		if !ok || !types.Identical(ia.T, ib.T) {
			efail("SameExcept needs two pointers of the same type")
		}
		skip := map[string]bool{}
		if sl, ok := args[2].(Slice); ok && sl.P.Obj != nil {
			if !sl.Len.IsConst() {
				efail("SameExcept: symbolic skip list")
			}
			for i := 0; i < int(sl.Len.Val); i++ {
				skip[x.strString(x.read(sl.P.Obj, sl.P.Off+i).(Str))] = true
			}
		}
		return []Value{x.sameState(ia.V.(Pointer), ib.V.(Pointer), pt.Elem(), 0, skip)}
	}
	m[apiPkg+"Symbolic"] = func(x *Exec, fn *ssa.Function, args []Value) []Value {
		return []Value{x.e.C.True()}
	}
	installHB(m)
	m[apiPkg+"Procs"] = func(x *Exec, fn *ssa.Function, args []Value) []Value {
		x.procs = args[0].(*smt.Term)
		return nil
	}
	// ---- errors / fmt ----
	errT := func(x *Exec) types.Type {
		p := x.e.P.Prog.ImportedPackage("errors")
		return types.NewPointer(p.Type("errorString").Type())
	}
	m["fmt.Errorf"] = func(x *Exec, fn *ssa.Function, args []Value) []Value {
		x.e.stubs["fmt.Errorf (opaque error keeping the first wrapped error)"] = true
		// find a wrapped error among the variadic args
		var wrapped Value = Iface{}
		if s, ok := args[1].(Slice); ok && s.P.Obj != nil {
			n := int(x.concretize(s.Len, "Errorf args"))
			for i := 0; i < n; i++ {
				v := x.read(s.P.Obj, s.P.Off+i)
				if iv, ok := v.(Iface); ok && iv.T != nil {
					if types.Implements(iv.T, errorIface) {
						wrapped = iv
						break
					}
				}
			}
		}
		o := x.e.newObject([]types.Type{types.Typ[types.String], errorType}, 2, "fmt.Errorf")
		o.rawSet(0, args[0])
		o.rawSet(1, wrapped)
		return []Value{Iface{T: wrapErrType, V: Pointer{Obj: o}}}
	}
	_ = errT
	m["fmt.Sprintf"] = func(x *Exec, fn *ssa.Function, args []Value) []Value {
		x.e.stubs["fmt.Sprintf (returns the format string)"] = true
		return []Value{args[0]}
	}
	m["fmt.Sprint"] = func(x *Exec, fn *ssa.Function, args []Value) []Value {
		return []Value{x.strConst("<sprint>")}
	}
	for _, n := range []string{"fmt.Printf", "fmt.Println", "fmt.Fprintf", "fmt.Print", "log.Printf", "log.Println"} {
		m[n] = func(x *Exec, fn *ssa.Function, args []Value) []Value {
			res := fn.Signature.Results()
			out := make([]Value, res.Len())
			for i := range out {
				out[i] = x.e.zeroValue(res.At(i).Type())
			}
			return out
		}
	}
	m["errors.Is"] = func(x *Exec, fn *ssa.Function, args []Value) []Value {
		cur := args[0].(Iface)
		tgt := args[1].(Iface)
		for depth := 0; depth < 20 && cur.T != nil; depth++ {
			if eq := x.ifaceEq(cur, tgt); eq.IsTrue() {
				return []Value{x.e.C.True()}
			}
			if cur.T == wrapErrType {
				p := cur.V.(Pointer)
				cur = x.read(p.Obj, 1).(Iface)
				continue
			}
			break
		}
		return []Value{x.e.C.False()}
	}
	// ---- sync ----
	nop := func(x *Exec, fn *ssa.Function, args []Value) []Value { return nil }
	// accesses made while a mutex is held are not part of the unsynchronised footprints (race_check / CheckHB):
	// the analyses decide races between unprotected accesses; lock discipline itself is not examined
	for _, n := range []string{"(*sync.Mutex).Lock", "(*sync.RWMutex).Lock", "(*sync.RWMutex).RLock"} {
		m[n] = func(x *Exec, fn *ssa.Function, args []Value) []Value { x.lockDepth++; return nil }
	}
	for _, n := range []string{"(*sync.Mutex).Unlock", "(*sync.RWMutex).Unlock", "(*sync.RWMutex).RUnlock"} {
		m[n] = func(x *Exec, fn *ssa.Function, args []Value) []Value {
			if x.lockDepth > 0 {
				x.lockDepth--
			}
			return nil
		}
	}
	for _, n := range []string{
		"(*sync.WaitGroup).Add", "(*sync.WaitGroup).Done", "(*sync.Cond).Broadcast", "(*sync.Cond).Signal", "runtime.Gosched", "runtime.KeepAlive"} {
		m[n] = nop
	}
	m["image.RegisterFormat"] = nop
	// image.NewNRGBA & co: value-split the rectangle first (symbolic sizes are enumerated), then run the real body
	for _, n := range []string{"image.NewNRGBA", "image.NewRGBA", "image.NewGray", "image.NewYCbCr", "image.NewNRGBA64", "image.NewRGBA64", "image.NewAlpha"} {
		m[n] = func(x *Exec, fn *ssa.Function, args []Value) []Value {
			r := append(Agg(nil), args[0].(Agg)...)
			for i := range r {
				if t, ok := r[i].(*smt.Term); ok && !t.IsConst() {
					r[i] = x.e.C.BV(t.W, x.concretize(t, "image rectangle coordinate"))
				}
			}
			na := append([]Value{r}, args[1:]...)
			return x.callFunction(fn, na)
		}
	}
	m["(*sync.WaitGroup).Wait"] = func(x *Exec, fn *ssa.Function, args []Value) []Value {
		x.runPendingGo()
		return nil
	}
	m["(*sync.Cond).Wait"] = func(x *Exec, fn *ssa.Function, args []Value) []Value {
		efail("sync.Cond.Wait would block under the sequential schedule")
		return nil
	}
	m["sync.NewCond"] = func(x *Exec, fn *ssa.Function, args []Value) []Value {
		p := x.e.P.Prog.ImportedPackage("sync")
		o := x.e.allocType(p.Type("Cond").Type(), "sync.Cond")
		return []Value{Pointer{Obj: o}}
	}
	m["(*sync.Once).Do"] = func(x *Exec, fn *ssa.Function, args []Value) []Value {
		p := args[0].(Pointer)
		// use slot 0 of the Once object as the done flag
		d := x.read(p.Obj, p.Off)
		if t, ok := d.(*smt.Term); ok && t.IsConst() && t.Val != 0 {
			return nil
		}
		x.write(p.Obj, p.Off, x.e.C.BV(d.(*smt.Term).W, 1))
		// what Once.Do runs happens-before every later Do return: not part of any goroutine's footprint
		x.lockDepth++
		x.callClosure(args[1].(*Closure), nil)
		x.lockDepth--
		return nil
	}
	m["(*sync.Pool).Get"] = func(x *Exec, fn *ssa.Function, args []Value) []Value {
		p := args[0].(Pointer)
		if h := x.poolHook; h != nil {
			if v, ok := h(x, p); ok {
				return []Value{v}
			}
		}
		if v, ok := x.pools[p.Obj]; ok && !(x.task > 0 && x.poolTask[p.Obj] > 0 && x.poolTask[p.Obj] != x.task) && !(x.hbSeg != nil && x.poolThread[p.Obj] > 0 && x.poolThread[p.Obj] != x.hbThread) {
			// (inside a fork/join region or pipeline under analysis an object Put by a SIBLING goroutine is not
			// handed over: the footprints are those of the schedule in which the goroutines overlap and
			// each gets its own object; a hand-over through the pool is ordered by the pool itself)
			delete(x.pools, p.Obj)
			x.e.stubs["sync.Pool (one-slot LIFO: Get returns the last object Put, else New())"] = true
			return []Value{v}
		}
		x.e.stubs["sync.Pool (one-slot LIFO: Get returns the last object Put, else New())"] = true
		// field New is the last slot of sync.Pool
		st := x.e.P.Prog.ImportedPackage("sync").Type("Pool").Type().Underlying().(*types.Struct)
		for i := 0; i < st.NumFields(); i++ {
			if st.Field(i).Name() == "New" {
				nf := x.read(p.Obj, p.Off+x.e.lay.fieldOffset(st, i))
				if c, ok := nf.(*Closure); ok && c != nil {
					return x.callClosure(c, nil)
				}
			}
		}
		return []Value{Iface{}}
	}
	m["(*sync.Pool).Put"] = func(x *Exec, fn *ssa.Function, args []Value) []Value {
		// one-slot LIFO model of sync.Pool: the last object put is what the next Get returns
		p := args[0].(Pointer)
		if x.pools == nil {
			x.pools = map[*Object]Value{}
		}
		x.pools[p.Obj] = args[1]
		if x.poolTask == nil {
			x.poolTask, x.poolThread = map[*Object]int{}, map[*Object]int{}
		}
		x.poolTask[p.Obj] = x.task
		x.poolThread[p.Obj] = 0
		if x.hbSeg != nil {
			x.poolThread[p.Obj] = x.hbThread
		}
		return nil
	}
	m["runtime.GOMAXPROCS"] = func(x *Exec, fn *ssa.Function, args []Value) []Value {
		if x.procs != nil {
			return []Value{x.procs}
		}
		x.e.stubs["runtime.GOMAXPROCS (returns 1)"] = true
		return []Value{x.e.intTerm(1)}
	}
	m["runtime.NumCPU"] = m["runtime.GOMAXPROCS"]
	// ---- sync/atomic (sequentially consistent, sequential schedule) ----
	for _, ty := range []string{"Int32", "Int64", "Uint32", "Uint64", "Uintptr"} {
		m["sync/atomic.Load"+ty] = func(x *Exec, fn *ssa.Function, args []Value) []Value {
			p := args[0].(Pointer)
			x.atomicOp = true
			defer func() { x.atomicOp = false }()
			return []Value{x.load(p, fn.Signature.Results().At(0).Type())}
		}
		m["sync/atomic.Store"+ty] = func(x *Exec, fn *ssa.Function, args []Value) []Value {
			p := args[0].(Pointer)
			x.atomicOp = true
			defer func() { x.atomicOp = false }()
			x.store(p, args[1], fn.Signature.Params().At(1).Type())
			return nil
		}
		m["sync/atomic.Add"+ty] = func(x *Exec, fn *ssa.Function, args []Value) []Value {
			p := args[0].(Pointer)
			t := fn.Signature.Params().At(1).Type()
			x.atomicOp = true
			defer func() { x.atomicOp = false }()
			nv := x.e.C.Add(x.load(p, t).(*smt.Term), args[1].(*smt.Term))
			x.store(p, nv, t)
			return []Value{nv}
		}
		m["sync/atomic.Swap"+ty] = func(x *Exec, fn *ssa.Function, args []Value) []Value {
			p := args[0].(Pointer)
			t := fn.Signature.Params().At(1).Type()
			old := x.load(p, t)
			x.store(p, args[1], t)
			return []Value{old}
		}
		m["sync/atomic.CompareAndSwap"+ty] = func(x *Exec, fn *ssa.Function, args []Value) []Value {
			p := args[0].(Pointer)
			t := fn.Signature.Params().At(1).Type()
			old := x.load(p, t).(*smt.Term)
			eq := x.e.C.Eq(old, args[1].(*smt.Term))
			x.store(p, x.e.C.Ite(eq, args[2].(*smt.Term), old), t)
			return []Value{eq}
		}
	}
	// ---- math ----
	m["math.Float32bits"] = func(x *Exec, fn *ssa.Function, args []Value) []Value {
		return []Value{x.e.C.BV(32, uint64(math.Float32bits(float32(args[0].(Float).V))))}
	}
	m["math.Float64bits"] = func(x *Exec, fn *ssa.Function, args []Value) []Value {
		return []Value{x.e.C.BV(64, math.Float64bits(args[0].(Float).V))}
	}
	m["math.Float32frombits"] = func(x *Exec, fn *ssa.Function, args []Value) []Value {
		t := args[0].(*smt.Term)
		if !t.IsConst() {
			efail("Float32frombits of symbolic value")
		}
		return []Value{Float{float64(math.Float32frombits(uint32(t.Val)))}}
	}
	m["math.Float64frombits"] = func(x *Exec, fn *ssa.Function, args []Value) []Value {
		t := args[0].(*smt.Term)
		if !t.IsConst() {
			efail("Float64frombits of symbolic value")
		}
		return []Value{Float{math.Float64frombits(t.Val)}}
	}
	for n, f := range map[string]func(float64) float64{"math.Log": math.Log, "math.Log2": math.Log2, "math.Log10": math.Log10, "math.Exp": math.Exp, "math.Sqrt": math.Sqrt,
		"math.Floor": math.Floor, "math.Ceil": math.Ceil, "math.Abs": math.Abs, "math.Round": math.Round, "math.Trunc": math.Trunc, "math.Exp2": math.Exp2, "math.Cbrt": math.Cbrt,
		"math.Sin": math.Sin, "math.Cos": math.Cos, "math.Log1p": math.Log1p} {
		m[n] = floatFn1(f)
	}
	m["math.Pow"] = func(x *Exec, fn *ssa.Function, args []Value) []Value {
		return []Value{Float{math.Pow(args[0].(Float).V, args[1].(Float).V)}}
	}
	m["math.Max"] = func(x *Exec, fn *ssa.Function, args []Value) []Value {
		return []Value{Float{math.Max(args[0].(Float).V, args[1].(Float).V)}}
	}
	m["math.Min"] = func(x *Exec, fn *ssa.Function, args []Value) []Value {
		return []Value{Float{math.Min(args[0].(Float).V, args[1].(Float).V)}}
	}
	m["math.Mod"] = func(x *Exec, fn *ssa.Function, args []Value) []Value {
		return []Value{Float{math.Mod(args[0].(Float).V, args[1].(Float).V)}}
	}
	m["math.IsNaN"] = func(x *Exec, fn *ssa.Function, args []Value) []Value {
		return []Value{x.e.C.Bool(math.IsNaN(args[0].(Float).V))}
	}
	m["math.IsInf"] = func(x *Exec, fn *ssa.Function, args []Value) []Value {
		return []Value{x.e.C.Bool(math.IsInf(args[0].(Float).V, int(args[1].(*smt.Term).SVal())))}
	}
	m["math.Inf"] = func(x *Exec, fn *ssa.Function, args []Value) []Value {
		return []Value{Float{math.Inf(int(args[0].(*smt.Term).SVal()))}}
	}
	m["math.NaN"] = func(x *Exec, fn *ssa.Function, args []Value) []Value {
		return []Value{Float{math.NaN()}}
	}
	// ---- math/bits: direct encodings (shorter terms than the table-driven std bodies) ----
	m["math/bits.Len32"] = func(x *Exec, fn *ssa.Function, args []Value) []Value {
		return []Value{x.bitLen(args[0].(*smt.Term))}
	}
	m["math/bits.Len64"] = m["math/bits.Len32"]
	m["math/bits.Len"] = m["math/bits.Len32"]
	m["math/bits.Len16"] = m["math/bits.Len32"]
	m["math/bits.Len8"] = m["math/bits.Len32"]
	m["math/bits.LeadingZeros32"] = func(x *Exec, fn *ssa.Function, args []Value) []Value {
		t := args[0].(*smt.Term)
		return []Value{x.e.C.Sub(x.e.intTerm(int64(t.W)), x.bitLen(t))}
	}
	m["math/bits.LeadingZeros64"] = m["math/bits.LeadingZeros32"]
	m["math/bits.LeadingZeros8"] = m["math/bits.LeadingZeros32"]
	m["math/bits.LeadingZeros16"] = m["math/bits.LeadingZeros32"]
	m["math/bits.TrailingZeros32"] = func(x *Exec, fn *ssa.Function, args []Value) []Value {
		t := args[0].(*smt.Term)
		C := x.e.C
		if t.IsConst() {
			if t.Val == 0 {
				return []Value{x.e.intTerm(int64(t.W))}
			}
			return []Value{x.e.intTerm(int64(bits.TrailingZeros64(t.Val)))}
		}
		acc := x.e.intTerm(int64(t.W))
		for i := t.W - 1; i >= 0; i-- {
			acc = C.Ite(C.Eq(C.Extract(t, i, i), C.BV(1, 1)), x.e.intTerm(int64(i)), acc)
		}
		return []Value{acc}
	}
	m["math/bits.TrailingZeros64"] = m["math/bits.TrailingZeros32"]
	m["math/bits.TrailingZeros"] = m["math/bits.TrailingZeros32"]
	// ---- sort ----
	m["sort.Slice"] = func(x *Exec, fn *ssa.Function, args []Value) []Value {
		x.e.stubs["sort.Slice (engine insertion sort calling the real less)"] = true
		iv := args[0].(Iface)
		s := iv.V.(Slice)
		et := iv.T.Underlying().(*types.Slice).Elem()
		k := x.e.lay.slots(et)
		n := int(x.concretize(s.Len, "sort length"))
		less := args[1].(*Closure)
		at := func(i int) Pointer { return x.ptrAdd(s.P, x.e.intTerm(int64(i)), k, n) }
		for i := 1; i < n; i++ {
			for j := i; j > 0; j-- {
				r := x.callClosure(less, []Value{x.e.intTerm(int64(j)), x.e.intTerm(int64(j - 1))})[0].(*smt.Term)
				if !r.IsConst() {
					if x.concretize(x.e.C.Ite(r, x.e.C.BV(1, 1), x.e.C.BV(1, 0)), "sort comparison") == 1 {
						r = x.e.C.True()
					} else {
						r = x.e.C.False()
					}
				}
				if r.IsFalse() {
					break
				}
				a, b := x.load(at(j), et), x.load(at(j-1), et)
				x.store(at(j), b, et)
				x.store(at(j-1), a, et)
			}
		}
		return nil
	}
	m["sort.SliceStable"] = m["sort.Slice"]
	m["sort.Ints"] = func(x *Exec, fn *ssa.Function, args []Value) []Value {
		s := args[0].(Slice)
		n := int(x.concretize(s.Len, "sort length"))
		vals := make([]int64, n)
		it := types.Typ[types.Int]
		for i := range vals {
			t := x.load(x.ptrAdd(s.P, x.e.intTerm(int64(i)), 1, n), it).(*smt.Term)
			if !t.IsConst() {
				efail("sort.Ints of symbolic values")
			}
			vals[i] = t.SVal()
		}
		sort.Slice(vals, func(i, j int) bool { return vals[i] < vals[j] })
		for i := range vals {
			x.store(x.ptrAdd(s.P, x.e.intTerm(int64(i)), 1, n), x.e.intTerm(vals[i]), it)
		}
		return nil
	}
	m["time.Now"] = func(x *Exec, fn *ssa.Function, args []Value) []Value {
		return []Value{x.e.zeroValue(fn.Signature.Results().At(0).Type())}
	}
	return m
}

var errorType = types.Universe.Lookup("error").Type()
var errorIface = errorType.Underlying().(*types.Interface)

// synthetic wrapped-error type used for fmt.Errorf results
const wrapErrName = "verif.wrapError"

var wrapErrType types.Type = func() types.Type {
	pkg := types.NewPackage("verif", "verif")
	tn := types.NewTypeName(0, pkg, "wrapError", nil)
	st := types.NewStruct([]*types.Var{types.NewField(0, pkg, "msg", types.Typ[types.String], false), types.NewField(0, pkg, "err", errorType, false)}, nil)
	named := types.NewNamed(tn, st, nil)
	ptr := types.NewPointer(named)
	sig := types.NewSignatureType(types.NewVar(0, pkg, "e", ptr), nil, nil, nil, types.NewTuple(types.NewVar(0, pkg, "", types.Typ[types.String])), false)
	named.AddMethod(types.NewFunc(0, pkg, "Error", sig))
	return ptr
}()

func (x *Exec) bitLen(t *smt.Term) *smt.Term {
	C := x.e.C
	if t.IsConst() {
		return x.e.intTerm(int64(bits.Len64(t.Val)))
	}
	acc := x.e.intTerm(0)
	for i := 0; i < t.W; i++ {
		acc = C.Ite(C.Eq(C.Extract(t, i, i), C.BV(1, 1)), x.e.intTerm(int64(i+1)), acc)
	}
	return acc
}

// havoc makes every integer/boolean cell reachable through t at p (struct fields, array elements,
// elements of non-nil slices) a fresh unconstrained symbol, in depth-first declaration order
// (the native implementation in verifapi walks in the same order).
// sameState: conjunction of cell-wise equality of two values of type t in memory (top-level struct
// fields named in skip are ignored); slices compare by length and contents, pointers by nil-ness and
// pointee contents, floats must be concrete.
func (x *Exec) sameState(pa, pb Pointer, t types.Type, depth int, skip map[string]bool) *smt.Term {
	c := x.e.C
	if depth > 8 {
		efail("SameExcept: nesting too deep")
	}
	switch u := t.Underlying().(type) {
	case *types.Struct:
		r := c.True()
		for i := 0; i < u.NumFields(); i++ {
			if depth == 0 && skip[u.Field(i).Name()] {
				continue
			}
			if u.Field(i).Name() == "_" {
				continue
			}
			fa, fb := pa, pb
			off := x.e.lay.fieldOffset(u, i)
			fa.Off += off
			fb.Off += off
			ft := x.sameState(fa, fb, u.Field(i).Type(), depth+1, nil)
			if depth == 0 && os.Getenv("VERIF_SAMEDBG") != "" && !(ft.IsConst() && ft.Val == 1) {
				st := "symbolic"
				if ft.IsConst() {
					st = "DIFFERENT"
				}
				fmt.Fprintf(os.Stderr, "SameExcept: field %s %s\n", u.Field(i).Name(), st)
			}
			r = c.BAnd(r, ft)
		}
		return r
	case *types.Array:
		k := x.e.lay.slots(u.Elem())
		var ts []*smt.Term
		for i := 0; i < int(u.Len()); i++ {
			ea, eb := pa, pb
			ea.Off += i * k
			eb.Off += i * k
			ts = append(ts, x.sameState(ea, eb, u.Elem(), depth+1, nil))
		}
		return c.AndAll(ts)
	case *types.Slice:
		va, _ := x.read(pa.Obj, pa.Off).(Slice)
		vb, _ := x.read(pb.Obj, pb.Off).(Slice)
		la, lb := va.Len, vb.Len
		if la == nil {
			la = x.e.intTerm(0)
		}
		if lb == nil {
			lb = x.e.intTerm(0)
		}
		if !la.IsConst() || !lb.IsConst() {
			efail("SameExcept: slice of symbolic length")
		}
		if la.Val != lb.Val {
			return c.False()
		}
		k := x.e.lay.slots(u.Elem())
		var ts []*smt.Term
		for i := 0; i < int(la.Val); i++ {
			ea, eb := va.P, vb.P
			ea.Off += i * k
			eb.Off += i * k
			ts = append(ts, x.sameState(ea, eb, u.Elem(), depth+1, nil))
		}
		return c.AndAll(ts)
	case *types.Pointer:
		va, _ := x.read(pa.Obj, pa.Off).(Pointer)
		vb, _ := x.read(pb.Obj, pb.Off).(Pointer)
		if va.IsNil() != vb.IsNil() {
			return c.False()
		}
		if va.IsNil() || (va.Obj == vb.Obj && va.Off == vb.Off) {
			return c.True()
		}
		return x.sameState(va, vb, u.Elem(), depth+1, nil)
	case *types.Basic:
		va, vb := x.read(pa.Obj, pa.Off), x.read(pb.Obj, pb.Off)
		if va == nil {
			va = x.e.zeroLeaf(t)
		}
		if vb == nil {
			vb = x.e.zeroLeaf(t)
		}
		switch a := va.(type) {
		case *smt.Term:
			return c.Eq(a, vb.(*smt.Term))
		case Float:
			return c.Bool(a.V == vb.(Float).V)
		case Str:
			return c.Bool(x.strString(a) == x.strString(vb.(Str)))
		}
	}
	efail("SameExcept: unsupported field type %s", t)
	return nil
}

func (x *Exec) havoc(p Pointer, t types.Type, depth int) {
	if depth > 6 {
		return
	}
	switch u := t.Underlying().(type) {
	case *types.Struct:
		for i := 0; i < u.NumFields(); i++ {
			fp := p
			fp.Off += x.e.lay.fieldOffset(u, i)
			x.havoc(fp, u.Field(i).Type(), depth+1)
		}
	case *types.Array:
		k := x.e.lay.slots(u.Elem())
		for i := 0; i < int(u.Len()); i++ {
			ep := p
			ep.Off += i * k
			x.havoc(ep, u.Elem(), depth+1)
		}
	case *types.Slice:
		sv, ok := x.read(p.Obj, p.Off).(Slice)
		if !ok || sv.P.Obj == nil || !sv.Len.IsConst() {
			return
		}
		k := x.e.lay.slots(u.Elem())
		for i := 0; i < int(sv.Len.Val); i++ {
			ep := sv.P
			ep.Off += i * k
			x.havoc(ep, u.Elem(), depth+1)
		}
	case *types.Basic:
		if w, _, ok := x.e.lay.intInfo(t); ok {
			x.write(p.Obj, p.Off, x.nondet(x.strConst("havoc"), w))
		} else if u.Info()&types.IsBoolean != 0 {
			x.write(p.Obj, p.Off, x.nondet(x.strConst("havoc"), 0))
		}
	}
}
