package sym

import (
	"fmt"
	"go/types"
	"os"
	"sort"
	"strings"
	"time"

	"golang.org/x/tools/go/packages"
	"golang.org/x/tools/go/ssa"
	"golang.org/x/tools/go/ssa/ssautil"

	"verif/engine/smt"
)

// Program is the loaded SSA program, shared (read-only) by all engines.
type Program struct {
	Prog  *ssa.Program
	Pkgs  map[string]*ssa.Package
	Arch  string
	IntW  int
	finfo map[*ssa.Function]*fnInfo
}

// Load type-checks and builds SSA for /repo (dir) with the given overlay.
func Load(dir, goarch string, overlay map[string][]byte, patterns ...string) (*Program, error) {
	return LoadOS(dir, "linux", goarch, overlay, patterns...)
}

// LoadOS is Load for an explicit GOOS.
func LoadOS(dir, goos, goarch string, overlay map[string][]byte, patterns ...string) (*Program, error) {
	cfg := &packages.Config{
		Mode:    packages.LoadAllSyntax,
		Dir:     dir,
		Env:     append(os.Environ(), "GOFLAGS=-mod=mod", "GOPROXY=off", "GOARCH="+goarch, "GOOS="+goos, "CGO_ENABLED=0"),
		Overlay: overlay,
	}
	pkgs, err := packages.Load(cfg, patterns...)
	if err != nil {
		return nil, err
	}
	var errs []string
	packages.Visit(pkgs, nil, func(p *packages.Package) {
		for _, e := range p.Errors {
			errs = append(errs, e.Error())
		}
	})
	if len(errs) > 0 {
		return nil, fmt.Errorf("load errors:\n%s", strings.Join(errs, "\n"))
	}
	prog, _ := ssautil.AllPackages(pkgs, ssa.InstantiateGenerics)
	prog.Build()
	p := &Program{Prog: prog, Pkgs: map[string]*ssa.Package{}, Arch: goarch, IntW: 64, finfo: map[*ssa.Function]*fnInfo{}}
	if goarch == "386" || goarch == "arm" || goarch == "mips" || goarch == "wasm32" {
		p.IntW = 32
	}
	for _, sp := range prog.AllPackages() {
		p.Pkgs[sp.Pkg.Path()] = sp
	}
	return p, nil
}

type fnInfo struct {
	num    map[ssa.Value]int
	n      int
	ipdom  []*ssa.BasicBlock // per block index; nil = virtual exit
	nphis  []int
	simple map[int]int // per If-block index: 1 = acyclic small region up to the join, 2 = not
}

func buildFnInfo(fn *ssa.Function) *fnInfo {
	fi := &fnInfo{num: map[ssa.Value]int{}}
	add := func(v ssa.Value) {
		fi.num[v] = fi.n
		fi.n++
	}
	for _, p := range fn.Params {
		add(p)
	}
	for _, fv := range fn.FreeVars {
		add(fv)
	}
	for _, b := range fn.Blocks {
		for _, ins := range b.Instrs {
			if v, ok := ins.(ssa.Value); ok {
				add(v)
			}
		}
	}
	// post-dominators: iterative dataflow on the reversed CFG with a virtual exit (index nb).
	nb := len(fn.Blocks)
	fi.ipdom = make([]*ssa.BasicBlock, nb)
	fi.nphis = make([]int, nb)
	for i, b := range fn.Blocks {
		for _, ins := range b.Instrs {
			if _, ok := ins.(*ssa.Phi); ok {
				fi.nphis[i]++
			} else {
				break
			}
		}
	}
	// pdom sets as bitsets
	words := (nb + 1 + 63) / 64
	full := make([]uint64, words)
	for i := 0; i <= nb; i++ {
		full[i/64] |= 1 << uint(i%64)
	}
	pd := make([][]uint64, nb+1)
	for i := 0; i < nb; i++ {
		pd[i] = append([]uint64(nil), full...)
	}
	pd[nb] = make([]uint64, words)
	pd[nb][nb/64] |= 1 << uint(nb%64)
	succs := func(i int) []int {
		b := fn.Blocks[i]
		if len(b.Succs) == 0 {
			return []int{nb}
		}
		r := make([]int, len(b.Succs))
		for k, s := range b.Succs {
			r[k] = s.Index
		}
		return r
	}
	changed := true
	for changed {
		changed = false
		for i := nb - 1; i >= 0; i-- {
			nw := append([]uint64(nil), full...)
			for _, s := range succs(i) {
				for w := range nw {
					nw[w] &= pd[s][w]
				}
			}
			nw[i/64] |= 1 << uint(i%64)
			for w := range nw {
				if nw[w] != pd[i][w] {
					changed = true
				}
			}
			pd[i] = nw
		}
	}
	cnt := func(s []uint64) int {
		n := 0
		for _, w := range s {
			for ; w != 0; w &= w - 1 {
				n++
			}
		}
		return n
	}
	for i := 0; i < nb; i++ {
		// ipdom = the strict post-dominator with the largest pdom set
		best, bestN := -1, -1
		for j := 0; j <= nb; j++ {
			if j == i || pd[i][j/64]&(1<<uint(j%64)) == 0 {
				continue
			}
			if n := cnt(pd[j]); n > bestN {
				best, bestN = j, n
			}
		}
		if best >= 0 && best < nb {
			fi.ipdom[i] = fn.Blocks[best]
		}
	}
	return fi
}

// Violation describes a failed obligation together with a model.
type Violation struct {
	Kind   string            `json:"kind"` // assert | panic | bounds | nil | div | ...
	Msg    string            `json:"msg"`
	Pos    string            `json:"pos"`
	Model  map[string]uint64 `json:"model"`
	Known  string            `json:"known,omitempty"`
	Stack  []string          `json:"stack,omitempty"`
}

// Result of running one harness instance.
type Result struct {
	Harness      string
	Args         []int64
	Paths        int
	Obligations  int
	Discharged   int
	Inconclusive []string
	Violations   []Violation
	Covers       map[string]bool
	Queries      int
	SolverTime   time.Duration
	Wall         time.Duration
	Funcs        []string
	Nondets      int
	Err          string
	Steps        int64
	Merges       int
	Restarts     int
	FreshQueries int
	RaceRegions  int
	Forks        int
	Samples      []string
	Bounds       map[string]int64
	Stubs        []string
}

// Engine executes harnesses; one per worker (not goroutine-safe).
type Engine struct {
	P      *Program
	C      *smt.Ctx
	S      *smt.Solver
	lay    *layout
	opts   Options
	objN   int
	glob   map[*ssa.Global]*Object
	inited map[*ssa.Package]bool
	intercepts map[string]intercept
	noMerge map[ssa.Instruction]bool
	qcache  map[[2]int]smt.Verdict
	funcs   map[string]bool
	stubs   map[string]bool
	UFStubs map[string]bool // function full names to replace by uninterpreted functions
	journal []jent
	KnownOpen map[string]bool
	Redirect  map[string]string
	Havoc     map[string]bool // functions replaced by fresh unconstrained results (choice functions whose every outcome must be tolerated)
	RaceCheck bool // record per-goroutine footprints in fork/join regions and require them to be disjoint
	FloatTaint bool // symbolic ints reaching float conversions are candidates, not engine errors
	ForkAll   map[string]bool // functions in which every symbolic branch forks
	ForkIn    map[string]bool // functions in which a symbolic branch whose region contains a loop or return forks instead of merging
}

type Options struct {
	Timeout    time.Duration
	MaxPaths   int
	MaxSteps   int64
	Unwind     int
	SolverArgv []string
	Debug      bool
	MaxViol    int
}

func NewEngine(p *Program, o Options) (*Engine, error) {
	if o.Timeout == 0 {
		o.Timeout = 20 * time.Second
	}
	if o.MaxPaths == 0 {
		o.MaxPaths = 20000
	}
	if o.MaxSteps == 0 {
		o.MaxSteps = 200_000_000
	}
	if o.Unwind == 0 {
		o.Unwind = 1 << 22
	}
	if o.MaxViol == 0 {
		o.MaxViol = 1
	}
	e := &Engine{P: p, C: smt.NewCtx(), lay: newLayout(p.IntW), opts: o,
		glob: map[*ssa.Global]*Object{}, inited: map[*ssa.Package]bool{},
		noMerge: map[ssa.Instruction]bool{}, qcache: map[[2]int]smt.Verdict{}, funcs: map[string]bool{}, stubs: map[string]bool{}, UFStubs: map[string]bool{}, Redirect: map[string]string{}, ForkIn: map[string]bool{}, ForkAll: map[string]bool{}, Havoc: map[string]bool{}}
	it := o.Timeout
	if it > incrementalBudget {
		it = incrementalBudget
	}
	s, err := smt.NewSolver(e.C, it, o.SolverArgv...)
	if err != nil {
		return nil, err
	}
	e.S = s
	if f := os.Getenv("VERIF_SMTLOG"); f != "" {
		if w, err := os.Create(f); err == nil {
			s.Log = w
		}
	}
	e.intercepts = builtinIntercepts()
	return e, nil
}

func (e *Engine) Close() { e.S.Close() }

func (e *Engine) info(fn *ssa.Function) *fnInfo {
	// Program.finfo is shared between engines: guard with a mutex
	finfoMu.Lock()
	fi := e.P.finfo[fn]
	if fi == nil {
		fi = buildFnInfo(fn)
		e.P.finfo[fn] = fi
	}
	finfoMu.Unlock()
	return fi
}

func (e *Engine) newObject(leaf []types.Type, n int, name string) *Object {
	e.objN++
	if n > bigObject {
		return &Object{ID: e.objN, N: n, Big: map[int]Value{}, Leaf: leaf, Name: name}
	}
	return &Object{ID: e.objN, N: n, Slots: make([]Value, n), Leaf: leaf, Name: name}
}

func (e *Engine) allocType(t types.Type, name string) *Object {
	lv := e.lay.leavesOf(t)
	return e.newObject(lv, len(lv), name)
}

func (e *Engine) intTerm(v int64) *smt.Term { return e.C.BV(e.lay.intW, uint64(v)) }

// ---- package initialisation ----

var initAllow = []string{
	"github.com/deepteams/webp", "image", "image/color", "errors", "io", "encoding/binary", "math", "math/bits", "sort", "bytes", "strings", "unicode/utf8", "strconv", "sync", "sync/atomic", "fmt", "bufio", "image/draw", "hash/crc32", "slices", "cmp",
}

func initAllowed(path string) bool {
	for _, a := range initAllow {
		if path == a || strings.HasPrefix(path, a+"/") {
			return a == "github.com/deepteams/webp" || path == a
		}
	}
	return false
}

// ensureInit runs the package initialiser (concretely) the first time a global
// of the package is touched.
func (e *Engine) ensureInit(x *Exec, pkg *ssa.Package) {
	if pkg == nil || e.inited[pkg] {
		return
	}
	e.inited[pkg] = true
	path := pkg.Pkg.Path()
	switch path {
	case "image", "image/color", "io", "encoding/binary", "math/bits", "image/draw":
	default:
		if !strings.HasPrefix(path, "github.com/deepteams/webp") {
			return // globals stay zero; reading an uninitialised std global is reported lazily
		}
	}
	// dependencies first
	var imps []*types.Package
	imps = append(imps, pkg.Pkg.Imports()...)
	sort.Slice(imps, func(i, j int) bool { return imps[i].Path() < imps[j].Path() })
	for _, ip := range imps {
		if sp := e.P.Prog.Package(ip); sp != nil {
			e.ensureInit(x, sp)
		}
	}
	initFn := pkg.Func("init")
	if initFn == nil {
		return
	}
	// run outside any journal so that the effects persist across paths
	saved := e.journal
	savedOn := x.journalOn
	x.journalOn = false
	// package initialisation happens before main: it belongs to no goroutine of a region under analysis
	savedTask, savedSeg := x.task, x.hbSeg
	x.task, x.hbSeg = 0, nil
	defer func() { e.journal = saved; x.journalOn = savedOn; x.task, x.hbSeg = savedTask, savedSeg }()
	x.callFunction(initFn, nil)
}

func (e *Engine) globalObj(x *Exec, g *ssa.Global) *Object {
	if o, ok := e.glob[g]; ok {
		return o
	}
	t := g.Type().(*types.Pointer).Elem()
	o := e.allocType(t, g.String())
	e.glob[g] = o
	e.ensureInit(x, g.Pkg)
	return o
}

// regionSimple reports whether the region between the branch in block b and its join is
// acyclic, free of returns and small (a plain diamond); such branches are always merged.
func (fi *fnInfo) regionSimple(fn *ssa.Function, b *ssa.BasicBlock) bool {
	finfoMu.Lock()
	defer finfoMu.Unlock()
	if fi.simple == nil {
		fi.simple = map[int]int{}
	}
	if v, ok := fi.simple[b.Index]; ok {
		return v == 1
	}
	join := fi.ipdom[b.Index]
	ok := join != nil
	seen := map[int]bool{}
	onStack := map[int]bool{b.Index: true}
	var dfs func(x *ssa.BasicBlock)
	dfs = func(x *ssa.BasicBlock) {
		if !ok || x == join {
			return
		}
		if onStack[x.Index] {
			ok = false
			return
		}
		if seen[x.Index] {
			return
		}
		seen[x.Index] = true
		if len(seen) > 16 || len(x.Succs) == 0 {
			ok = false
			return
		}
		onStack[x.Index] = true
		for _, s := range x.Succs {
			dfs(s)
		}
		onStack[x.Index] = false
	}
	for _, s := range b.Succs {
		dfs(s)
	}
	if ok {
		fi.simple[b.Index] = 1
	} else {
		fi.simple[b.Index] = 2
	}
	return ok
}
