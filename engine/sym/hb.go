package sym

import (
	"fmt"
	"os/exec"
	"sort"
	"strings"
	"time"

	"golang.org/x/tools/go/ssa"

	"verif/engine/smt"
)

// Happens-before analysis of a wait/signal pipeline (verifapi.Thread / Event / CheckHB).
//
// While an analysis thread (id > 0) executes, the non-atomic heap cells it reads and writes are
// recorded per SEGMENT = the code between two consecutive events of that thread. Events:
//   kind 0: wait until progress(row) >= n     kind 1: publish progress(row) = n
// CheckHB builds the timestamp problem: one integer per event, program order inside a thread, and for
// every wait an edge from the FIRST signal on that row (in the signalling thread's program order)
// whose value is >= n (the earliest moment the wait can complete). For every pair of segments of
// different threads with a write/read or write/write conflict the solver is asked whether a
// consistent assignment lets the two segments overlap; sat = a schedule with a data race on the
// shared cells = schedule-dependent result. A wait without any enabling signal is a deadlock.

type hbSegment struct {
	thread int
	idx    int
	// event that opens the segment (kind -1 = thread start)
	kind, row, n int
	pos          string
	r, w         map[jkey]bool
}

func (x *Exec) hbOpen(kind, row, n int) {
	if x.hbThreads == nil {
		x.hbThreads = map[int][]*hbSegment{}
	}
	seg := &hbSegment{thread: x.hbThread, idx: len(x.hbThreads[x.hbThread]), kind: kind, row: row, n: n, pos: x.where(), r: map[jkey]bool{}, w: map[jkey]bool{}}
	x.hbThreads[x.hbThread] = append(x.hbThreads[x.hbThread], seg)
	x.hbSeg = seg
}

func installHB(m map[string]intercept) {
	m[apiPkg+"Thread"] = func(x *Exec, fn *ssa.Function, args []Value) []Value {
		t := args[0].(*smt.Term)
		if !t.IsConst() {
			efail("Thread: symbolic id")
		}
		id := int(int64(t.Val))
		x.hbThread = id
		if id <= 0 {
			x.hbSeg = nil
			return nil
		}
		if len(x.hbThreads[id]) > 0 {
			efail("Thread %d entered twice", id)
		}
		x.hbOpen(-1, 0, 0)
		return nil
	}
	m[apiPkg+"Event"] = func(x *Exec, fn *ssa.Function, args []Value) []Value {
		if x.hbThread <= 0 {
			return nil // events of setup code are not part of the analysis
		}
		var v [3]int
		for i := 0; i < 3; i++ {
			t := args[i].(*smt.Term)
			if !t.IsConst() {
				efail("Event: symbolic argument")
			}
			v[i] = int(int64(t.Val))
		}
		x.hbOpen(v[0], v[1], v[2])
		return nil
	}
	m[apiPkg+"CheckHB"] = func(x *Exec, fn *ssa.Function, args []Value) []Value {
		x.checkHB(x.strString(args[0].(Str)))
		return nil
	}
}

func (x *Exec) checkHB(what string) {
	t0 := time.Now()
	var tids []int
	for id := range x.hbThreads {
		tids = append(tids, id)
	}
	sort.Ints(tids)
	if len(tids) < 2 {
		efail("CheckHB: fewer than two analysis threads were recorded")
	}
	var sb strings.Builder
	ev := func(s *hbSegment) string { return fmt.Sprintf("t_%d_%d", s.thread, s.idx) }
	end := func(s *hbSegment) string { // time at which the segment ends = next event of the thread, or thread end
		segs := x.hbThreads[s.thread]
		if s.idx+1 < len(segs) {
			return ev(segs[s.idx+1])
		}
		return fmt.Sprintf("tend_%d", s.thread)
	}
	// signals per row in program order of the signalling thread
	type sig struct {
		seg *hbSegment
	}
	signals := map[int][]*hbSegment{}
	for _, id := range tids {
		fmt.Fprintf(&sb, "(declare-const tend_%d Int)\n", id)
		for _, s := range x.hbThreads[id] {
			fmt.Fprintf(&sb, "(declare-const %s Int)\n", ev(s))
		}
	}
	for _, id := range tids {
		for _, s := range x.hbThreads[id] {
			fmt.Fprintf(&sb, "(assert (< %s %s))\n", ev(s), end(s))
			if s.kind == 1 {
				signals[s.row] = append(signals[s.row], s)
			}
		}
	}
	rowOwner := map[int]int{}
	for row, ss := range signals {
		for _, s := range ss {
			if o, ok := rowOwner[row]; ok && o != s.thread {
				efail("CheckHB: progress of row %d is published by two threads (%d and %d): not a monotone single-writer counter", row, o, s.thread)
			}
			rowOwner[row] = s.thread
		}
	}
	nWaits := 0
	for _, id := range tids {
		for _, s := range x.hbThreads[id] {
			if s.kind != 0 || s.n <= 0 {
				continue
			}
			nWaits++
			var first *hbSegment
			for _, g := range signals[s.row] {
				if g.n >= s.n {
					first = g
					break
				}
			}
			if first == nil {
				x.res.Obligations++
				_, m := x.check(x.e.C.True(), true)
				x.violation("hb", fmt.Sprintf("deadlock: thread %d waits for progress(row %d) >= %d at %s but no signal ever publishes that much", s.thread, s.row, s.n, s.pos), m)
				return
			}
			if first.thread == s.thread {
				efail("CheckHB: thread %d waits on its own row", s.thread)
			}
			fmt.Fprintf(&sb, "(assert (< %s %s))\n", ev(first), ev(s))
		}
	}
	base := sb.String()
	// the constraint system itself must be satisfiable (otherwise the events are cyclic = deadlock)
	run := func(q string) string {
		cmd := exec.Command("z3", "-T:60", "-in")
		cmd.Stdin = strings.NewReader(q)
		out, _ := cmd.CombinedOutput()
		x.res.Queries++
		return strings.TrimSpace(strings.SplitN(string(out), "\n", 2)[0])
	}
	x.res.Obligations++
	switch v := run(base + "(check-sat)\n"); v {
	case "sat":
		x.res.Discharged++
	case "unsat":
		_, m := x.check(x.e.C.True(), true)
		x.violation("hb", "deadlock: the wait/signal events admit no schedule at all (cyclic waiting)", m)
		return
	default:
		x.res.Inconclusive = append(x.res.Inconclusive, "CheckHB: base query "+v)
		return
	}
	// conflicting segment pairs
	type pair struct{ a, b *hbSegment; cell jkey; ww bool }
	var pairs []pair
	for i, ta := range tids {
		for _, tb := range tids[i+1:] {
			for _, a := range x.hbThreads[ta] {
				for _, b := range x.hbThreads[tb] {
					var hit *jkey
					ww := false
					for k := range a.w {
						if b.w[k] {
							kk := k
							hit, ww = &kk, true
							break
						}
						if b.r[k] {
							kk := k
							hit = &kk
						}
					}
					if hit == nil {
						for k := range b.w {
							if a.r[k] {
								kk := k
								hit = &kk
								break
							}
						}
					}
					if hit != nil {
						pairs = append(pairs, pair{a, b, *hit, ww})
					}
				}
			}
		}
	}
	// one incremental solver session for all pairs
	var q strings.Builder
	q.WriteString(base)
	for _, p := range pairs {
		fmt.Fprintf(&q, "(push)\n(assert (and (< %s %s) (< %s %s)))\n(check-sat)\n(pop)\n", ev(p.a), end(p.b), ev(p.b), end(p.a))
	}
	cmd := exec.Command("z3", "-T:300", "-in")
	cmd.Stdin = strings.NewReader(q.String())
	out, _ := cmd.CombinedOutput()
	lines := strings.Fields(string(out))
	x.res.Queries += len(pairs)
	x.res.SolverTime += time.Since(t0)
	if len(lines) != len(pairs) {
		x.res.Inconclusive = append(x.res.Inconclusive, fmt.Sprintf("CheckHB: solver answered %d of %d queries: %s", len(lines), len(pairs), firstN(string(out), 200)))
		return
	}
	for i, p := range pairs {
		x.res.Obligations++
		switch lines[i] {
		case "unsat":
			x.res.Discharged++
		case "sat":
			kind := "read/write"
			if p.ww {
				kind = "write/write"
			}
			_, m := x.check(x.e.C.True(), true)
			x.violation("hb", fmt.Sprintf("%s: %s conflict on %s[%d] between thread %d segment %d (after %s at %s) and thread %d segment %d (after %s at %s): some schedule allowed by the wait/signal events lets them overlap",
				what, kind, p.cell.o.Name, p.cell.i, p.a.thread, p.a.idx, hbEventString(p.a), p.a.pos, p.b.thread, p.b.idx, hbEventString(p.b), p.b.pos), m)
			return
		default:
			x.res.Inconclusive = append(x.res.Inconclusive, "CheckHB: pair query "+lines[i])
			return
		}
	}
	for _, id := range tids {
		x.res.Nondets += len(x.hbThreads[id]) + 1 // one symbolic timestamp per event and thread end: the schedule is the symbolic input
	}
	x.res.Bounds["hb_threads"] = int64(len(tids))
	x.res.Bounds["hb_waits"] = int64(nWaits)
	x.res.Bounds["hb_conflicting_segment_pairs"] = int64(len(pairs))
}

func hbEventString(s *hbSegment) string {
	switch s.kind {
	case 0:
		return fmt.Sprintf("wait(row %d >= %d)", s.row, s.n)
	case 1:
		return fmt.Sprintf("signal(row %d = %d)", s.row, s.n)
	}
	return "thread start"
}

func firstN(s string, n int) string {
	if len(s) > n {
		return s[:n]
	}
	return s
}
