// Package sym is a symbolic interpreter for go/ssa.
package sym

import (
	"fmt"
	"go/types"

	"golang.org/x/tools/go/ssa"

	"verif/engine/smt"
)

// Value is one of: *smt.Term (ints, bools), Float, Pointer, Slice, Str, Iface,
// *Closure, *MapV, *Chan, Agg (struct/array values), Tuple, *ssa.Builtin.
type Value interface{}

type Float struct {
	V float64
}

// Cplx is unsupported; placeholder.

type Object struct {
	ID    int
	N     int
	Slots []Value      // dense storage (nil entry = zero value of its leaf type); nil for big objects
	Big   map[int]Value // sparse storage for big objects
	Leaf  []types.Type // leaf-type pattern (repeats)
	Name  string
}

type SymIdx struct {
	Idx    *smt.Term // 64-bit (engine int width) index, already bounds-checked: 0 <= Idx < N
	Stride int
	N      int
}

type Pointer struct {
	Obj *Object
	Off int
	Sym []SymIdx
	Fn  *Closure // pointer-to-function-like things are not supported; unused
}

func (p Pointer) IsNil() bool { return p.Obj == nil }

type Slice struct {
	P   Pointer
	Len *smt.Term
	Cap *smt.Term
}

type Str struct {
	B []*smt.Term // bytes (width 8)
}

type Iface struct {
	T types.Type // nil => nil interface
	V Value
}

type Closure struct {
	Fn    *ssa.Function
	Env   []Value
	Bound Value // receiver for bound method closures created by the engine
}

type MapV struct {
	Keys  []string
	KVal  map[string]Value
	Vals  map[string]Value
	ElemT types.Type
}

type Chan struct {
	Buf    []Value
	Cap    int
	Closed bool
}

type Agg []Value
type Tuple []Value

type mapIter struct {
	m    *MapV
	keys []string
	pos  int
	str  *Str
}

type engineError struct{ msg string }

func (e engineError) Error() string { return e.msg }

func efail(format string, a ...interface{}) {
	panic(engineError{fmt.Sprintf(format, a...)})
}

// ---- type layout ----

type layout struct {
	leaves   map[types.Type][]types.Type
	fieldOff map[*types.Struct][]int
	intW     int
}

func newLayout(intW int) *layout {
	return &layout{leaves: map[types.Type][]types.Type{}, fieldOff: map[*types.Struct][]int{}, intW: intW}
}

func (l *layout) slots(t types.Type) int {
	switch u := t.Underlying().(type) {
	case *types.Struct:
		n := 0
		for i := 0; i < u.NumFields(); i++ {
			n += l.slots(u.Field(i).Type())
		}
		return n
	case *types.Array:
		return int(u.Len()) * l.slots(u.Elem())
	case *types.Tuple:
		return u.Len()
	}
	return 1
}

func isAgg(t types.Type) bool {
	switch t.Underlying().(type) {
	case *types.Struct, *types.Array:
		return true
	}
	return false
}

func (l *layout) leavesOf(t types.Type) []types.Type {
	if r, ok := l.leaves[t]; ok {
		return r
	}
	var r []types.Type
	switch u := t.Underlying().(type) {
	case *types.Struct:
		for i := 0; i < u.NumFields(); i++ {
			r = append(r, l.leavesOf(u.Field(i).Type())...)
		}
	case *types.Array:
		e := l.leavesOf(u.Elem())
		n := int(u.Len())
		r = make([]types.Type, 0, n*len(e))
		for i := 0; i < n; i++ {
			r = append(r, e...)
		}
	default:
		r = []types.Type{t}
	}
	l.leaves[t] = r
	return r
}

func (l *layout) fieldOffset(st *types.Struct, i int) int {
	offs, ok := l.fieldOff[st]
	if !ok {
		offs = make([]int, st.NumFields()+1)
		for k := 0; k < st.NumFields(); k++ {
			offs[k+1] = offs[k] + l.slots(st.Field(k).Type())
		}
		l.fieldOff[st] = offs
	}
	return offs[i]
}

// intInfo returns the width/signedness of integer-like types (bool excluded).
func (l *layout) intInfo(t types.Type) (w int, signed bool, ok bool) {
	b, isB := t.Underlying().(*types.Basic)
	if !isB {
		return 0, false, false
	}
	switch b.Kind() {
	case types.Int8:
		return 8, true, true
	case types.Int16:
		return 16, true, true
	case types.Int32:
		return 32, true, true
	case types.Int64:
		return 64, true, true
	case types.Int, types.UntypedInt, types.UntypedRune:
		return l.intW, true, true
	case types.Uint8:
		return 8, false, true
	case types.Uint16:
		return 16, false, true
	case types.Uint32:
		return 32, false, true
	case types.Uint64:
		return 64, false, true
	case types.Uint, types.Uintptr:
		return l.intW, false, true
	}
	return 0, false, false
}

func isFloat(t types.Type) bool {
	b, ok := t.Underlying().(*types.Basic)
	return ok && b.Info()&types.IsFloat != 0
}

func isFloat32(t types.Type) bool {
	b, ok := t.Underlying().(*types.Basic)
	return ok && b.Kind() == types.Float32
}

func isBool(t types.Type) bool {
	b, ok := t.Underlying().(*types.Basic)
	return ok && b.Info()&types.IsBoolean != 0
}

func isString(t types.Type) bool {
	b, ok := t.Underlying().(*types.Basic)
	return ok && b.Info()&types.IsString != 0
}

func (e *Engine) zeroLeaf(t types.Type) Value {
	switch u := t.Underlying().(type) {
	case *types.Basic:
		if w, _, ok := e.lay.intInfo(t); ok {
			return e.C.BV(w, 0)
		}
		switch {
		case u.Info()&types.IsBoolean != 0:
			return e.C.False()
		case u.Info()&types.IsFloat != 0:
			return Float{0}
		case u.Info()&types.IsString != 0:
			return Str{}
		case u.Kind() == types.UnsafePointer:
			return Pointer{}
		case u.Kind() == types.UntypedNil:
			return nil
		}
		efail("zero of basic type %s unsupported", t)
	case *types.Pointer:
		return Pointer{}
	case *types.Slice:
		return Slice{Len: e.C.BV(e.lay.intW, 0), Cap: e.C.BV(e.lay.intW, 0)}
	case *types.Interface:
		return Iface{}
	case *types.Signature:
		return (*Closure)(nil)
	case *types.Map:
		return (*MapV)(nil)
	case *types.Chan:
		return (*Chan)(nil)
	case *types.TypeParam:
		efail("zero of type parameter")
	}
	efail("zero of type %s unsupported", t)
	return nil
}

func (e *Engine) zeroValue(t types.Type) Value {
	if isAgg(t) {
		lv := e.lay.leavesOf(t)
		a := make(Agg, len(lv))
		for i, lt := range lv {
			a[i] = e.zeroLeaf(lt)
		}
		return a
	}
	if tp, ok := t.(*types.Tuple); ok {
		r := make(Tuple, tp.Len())
		for i := range r {
			r[i] = e.zeroValue(tp.At(i).Type())
		}
		return r
	}
	return e.zeroLeaf(t)
}

const bigObject = 1 << 20

func (o *Object) rawGet(i int) Value {
	if o.Big != nil {
		return o.Big[i]
	}
	return o.Slots[i]
}

func (o *Object) rawSet(i int, v Value) {
	if o.Big != nil {
		if v == nil {
			delete(o.Big, i)
		} else {
			o.Big[i] = v
		}
		return
	}
	o.Slots[i] = v
}
