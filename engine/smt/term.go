// Package smt is a small hash-consed bit-vector/boolean term layer with a
// local simplifier and an SMT-LIB2 printer.
package smt

import (
	"os"
	"fmt"
	"math/bits"
	"sort"
	"strings"
)

type Op uint8

const (
	OConst Op = iota // bit-vector constant (W>0) or boolean constant (W==0, Val 0/1)
	OVar
	OAdd
	OSub
	OMul
	OUDiv
	OSDiv
	OURem
	OSRem
	OAnd
	OOr
	OXor
	ONot
	ONeg
	OShl
	OLShr
	OAShr
	OConcat
	OExtract // Val = hi<<8 | lo
	OZExt
	OSExt
	OIte
	OEq
	OUlt
	OUle
	OSlt
	OSle
	OBAnd
	OBOr
	OBNot
	OTable // Val = table id, Args[0] = index
	OUF    // Name = function name
)

var opName = map[Op]string{
	OAdd: "bvadd", OSub: "bvsub", OMul: "bvmul", OUDiv: "bvudiv", OSDiv: "bvsdiv", OURem: "bvurem", OSRem: "bvsrem",
	OAnd: "bvand", OOr: "bvor", OXor: "bvxor", ONot: "bvnot", ONeg: "bvneg", OShl: "bvshl", OLShr: "bvlshr", OAShr: "bvashr",
	OConcat: "concat", OIte: "ite", OEq: "=", OUlt: "bvult", OUle: "bvule", OSlt: "bvslt", OSle: "bvsle",
	OBAnd: "and", OBOr: "or", OBNot: "not",
}

// Term is an immutable hash-consed node. W is the bit width (0 = Bool).
type Term struct {
	ID   int
	Op   Op
	W    int
	Val  uint64
	Name string
	Args []*Term
}

type Table struct {
	ID   int
	IW   int // index width
	W    int // element width
	Vals []uint64
}

// Ctx owns the hash-cons table.
type Ctx struct {
	tab    map[string]*Term
	terms  []*Term
	Tables []*Table
	tabKey map[string]*Table
	UFs    map[string]string // name -> declaration
	ufOrd  []string
	nvar   int
}

func NewCtx() *Ctx {
	return &Ctx{tab: map[string]*Term{}, tabKey: map[string]*Table{}, UFs: map[string]string{}}
}

func (c *Ctx) NumTerms() int { return len(c.terms) }

func mask(w int) uint64 {
	if w >= 64 {
		return ^uint64(0)
	}
	return (uint64(1) << uint(w)) - 1
}

func (c *Ctx) mk(op Op, w int, val uint64, name string, args ...*Term) *Term {
	var sb strings.Builder
	fmt.Fprintf(&sb, "%d|%d|%d|%s", op, w, val, name)
	for _, a := range args {
		fmt.Fprintf(&sb, "|%d", a.ID)
	}
	k := sb.String()
	if t, ok := c.tab[k]; ok {
		return t
	}
	t := &Term{ID: len(c.terms), Op: op, W: w, Val: val, Name: name, Args: append([]*Term(nil), args...)}
	c.terms = append(c.terms, t)
	c.tab[k] = t
	return t
}

func (t *Term) IsConst() bool { return t.Op == OConst }
func (t *Term) IsBool() bool  { return t.W == 0 }
func (t *Term) IsTrue() bool  { return t.Op == OConst && t.W == 0 && t.Val == 1 }
func (t *Term) IsFalse() bool { return t.Op == OConst && t.W == 0 && t.Val == 0 }

// SVal returns the constant sign-extended to int64.
func (t *Term) SVal() int64 {
	if t.W >= 64 {
		return int64(t.Val)
	}
	sh := uint(64 - t.W)
	return int64(t.Val<<sh) >> sh
}

func (c *Ctx) BV(w int, v uint64) *Term { return c.mk(OConst, w, v&mask(w), "") }
func (c *Ctx) Bool(b bool) *Term {
	if b {
		return c.mk(OConst, 0, 1, "")
	}
	return c.mk(OConst, 0, 0, "")
}
func (c *Ctx) True() *Term  { return c.Bool(true) }
func (c *Ctx) False() *Term { return c.Bool(false) }

// Var creates (or returns) a named variable. Names must be unique per sort.
func (c *Ctx) Var(name string, w int) *Term { return c.mk(OVar, w, 0, name) }

func (c *Ctx) FreshName(prefix string) string {
	c.nvar++
	return fmt.Sprintf("%s!%d", prefix, c.nvar)
}

func sext(v uint64, w int) int64 {
	if w >= 64 {
		return int64(v)
	}
	sh := uint(64 - w)
	return int64(v<<sh) >> sh
}

func (c *Ctx) binConst(op Op, w int, a, b uint64) (uint64, bool) {
	m := mask(w)
	switch op {
	case OAdd:
		return (a + b) & m, true
	case OSub:
		return (a - b) & m, true
	case OMul:
		return (a * b) & m, true
	case OUDiv:
		if b == 0 {
			return m, true
		}
		return (a / b) & m, true
	case OURem:
		if b == 0 {
			return a, true
		}
		return (a % b) & m, true
	case OSDiv:
		sa, sb := sext(a, w), sext(b, w)
		if sb == 0 {
			if sa >= 0 {
				return m, true
			}
			return 1, true
		}
		if sb == -1 {
			return uint64(-sa) & m, true
		}
		return uint64(sa/sb) & m, true
	case OSRem:
		sa, sb := sext(a, w), sext(b, w)
		if sb == 0 {
			return a, true
		}
		if sb == -1 {
			return 0, true
		}
		return uint64(sa%sb) & m, true
	case OAnd:
		return a & b, true
	case OOr:
		return a | b, true
	case OXor:
		return a ^ b, true
	case OShl:
		if b >= uint64(w) {
			return 0, true
		}
		return (a << b) & m, true
	case OLShr:
		if b >= uint64(w) {
			return 0, true
		}
		return a >> b, true
	case OAShr:
		sa := sext(a, w)
		if b >= uint64(w) {
			b = uint64(w - 1)
			if w == 64 {
				b = 63
			}
		}
		return uint64(sa>>b) & m, true
	}
	return 0, false
}

// MaxBits returns an upper bound on the number of significant bits of t read as unsigned.
func MaxBits(t *Term) int {
	return maxBits(t, 0)
}

func maxBits(t *Term, depth int) int {
	if t.W == 0 {
		return 1
	}
	if depth > 12 {
		return t.W
	}
	r := t.W
	switch t.Op {
	case OConst:
		r = bits.Len64(t.Val)
	case OZExt:
		r = maxBits(t.Args[0], depth+1)
	case OConcat:
		h := maxBits(t.Args[0], depth+1)
		if h == 0 {
			r = maxBits(t.Args[1], depth+1)
		} else {
			r = h + t.Args[1].W
		}
	case OAnd:
		a, b := maxBits(t.Args[0], depth+1), maxBits(t.Args[1], depth+1)
		if a < b {
			r = a
		} else {
			r = b
		}
	case OOr, OXor:
		a, b := maxBits(t.Args[0], depth+1), maxBits(t.Args[1], depth+1)
		if a > b {
			r = a
		} else {
			r = b
		}
	case OIte:
		a, b := maxBits(t.Args[1], depth+1), maxBits(t.Args[2], depth+1)
		if a > b {
			r = a
		} else {
			r = b
		}
	case OAdd:
		a, b := maxBits(t.Args[0], depth+1), maxBits(t.Args[1], depth+1)
		if a < b {
			a = b
		}
		r = a + 1
	case OMul:
		r = maxBits(t.Args[0], depth+1) + maxBits(t.Args[1], depth+1)
	case OLShr:
		r = maxBits(t.Args[0], depth+1)
	case OUDiv, OURem:
		r = maxBits(t.Args[0], depth+1)
	case OTable, OUF, OVar, OExtract:
		r = t.W
	}
	if r > t.W {
		r = t.W
	}
	return r
}

// Bin builds a binary bit-vector operation with both operands of width w.
var noACNorm = os.Getenv("VERIF_NO_ACNORM") != ""
var noNarrow = os.Getenv("VERIF_NO_NARROW") != ""

func (c *Ctx) Bin(op Op, a, b *Term) *Term {
	if a.W != b.W {
		panic(fmt.Sprintf("smt.Bin width mismatch %d vs %d op %d", a.W, b.W, op))
	}
	w := a.W
	if a.IsConst() && b.IsConst() {
		if v, ok := c.binConst(op, w, a.Val, b.Val); ok {
			return c.BV(w, v)
		}
	}
	m := mask(w)
	switch op {
	case OAdd, OMul, OAnd, OOr, OXor:
		// canonical order: constant last
		if a.IsConst() || (!b.IsConst() && a.ID > b.ID) {
			a, b = b, a
		}
	}
	switch op {
	case OAdd:
		if b.IsConst() && b.Val == 0 {
			return a
		}
		// (x + c1) + c2
		if b.IsConst() && a.Op == OAdd && a.Args[1].IsConst() {
			return c.Bin(OAdd, a.Args[0], c.BV(w, a.Args[1].Val+b.Val))
		}
		// sums of sums: associative-commutative normal form (leaves sorted by id, left-deep, constant
		// last), so that the same multiset of summands added in a different order is the same term
		if (a.Op == OAdd || b.Op == OAdd) && !noACNorm {
			var leaves []*Term
			var k uint64
			ok := true
			var collect func(t *Term)
			collect = func(t *Term) {
				if !ok {
					return
				}
				switch {
				case t.Op == OAdd:
					collect(t.Args[0])
					collect(t.Args[1])
				case t.IsConst():
					k += t.Val
				default:
					leaves = append(leaves, t)
					if len(leaves) > 96 {
						ok = false
					}
				}
			}
			collect(a)
			collect(b)
			if ok && len(leaves) > 0 {
				key := func(t *Term) int {
					for t.Op == OZExt || t.Op == OSExt {
						t = t.Args[0] // same order whatever the width the summands were extended to
					}
					return t.ID
				}
				sort.SliceStable(leaves, func(i, j int) bool { return key(leaves[i]) < key(leaves[j]) })
				acc := leaves[0]
				for _, l := range leaves[1:] {
					acc = c.mk(OAdd, w, 0, "", acc, l)
				}
				if k&m != 0 {
					acc = c.mk(OAdd, w, 0, "", acc, c.BV(w, k))
				}
				return acc
			}
		}
	case OSub:
		if b.IsConst() && b.Val == 0 {
			return a
		}
		if a == b {
			return c.BV(w, 0)
		}
		if b.IsConst() {
			return c.Bin(OAdd, a, c.BV(w, -b.Val))
		}
	case OMul:
		if b.IsConst() {
			if b.Val == 0 {
				return b
			}
			if b.Val == 1 {
				return a
			}
		}
	case OAnd:
		if b.IsConst() {
			if b.Val == 0 {
				return b
			}
			if b.Val == m {
				return a
			}
			// low mask -> zext(extract)
			if b.Val&(b.Val+1) == 0 {
				k := bits.Len64(b.Val)
				return c.ZExt(c.Extract(a, k-1, 0), w)
			}
		}
		if a == b {
			return a
		}
	case OOr:
		if b.IsConst() {
			if b.Val == 0 {
				return a
			}
			if b.Val == m {
				return b
			}
		}
		if a == b {
			return a
		}
	case OXor:
		if b.IsConst() && b.Val == 0 {
			return a
		}
		if a == b {
			return c.BV(w, 0)
		}
	case OShl:
		if b.IsConst() {
			if b.Val == 0 {
				return a
			}
			if b.Val >= uint64(w) {
				return c.BV(w, 0)
			}
			k := int(b.Val)
			return c.Concat(c.Extract(a, w-1-k, 0), c.BV(k, 0))
		}
		if a.IsConst() && a.Val == 0 {
			return a
		}
	case OLShr:
		if b.IsConst() {
			if b.Val == 0 {
				return a
			}
			if b.Val >= uint64(w) {
				return c.BV(w, 0)
			}
			k := int(b.Val)
			return c.ZExt(c.Extract(a, w-1, k), w)
		}
		if a.IsConst() && a.Val == 0 {
			return a
		}
	case OAShr:
		if b.IsConst() {
			if b.Val == 0 {
				return a
			}
			k := int(b.Val)
			if k >= w {
				k = w - 1
			}
			return c.SExt(c.Extract(a, w-1, k), w)
		}
	case OUDiv:
		if b.IsConst() && b.Val == 1 {
			return a
		}
		if b.IsConst() && b.Val != 0 && a.Op == OMul && a.Args[1] == b && MaxBits(a.Args[0])+bits.Len64(b.Val) <= w {
			return a.Args[0] // (x*c)/c with no overflow
		}
		if b.IsConst() && b.Val != 0 && b.Val&(b.Val-1) == 0 {
			return c.Bin(OLShr, a, c.BV(w, uint64(bits.TrailingZeros64(b.Val))))
		}
	case OURem:
		if b.IsConst() && b.Val != 0 && b.Val&(b.Val-1) == 0 {
			return c.Bin(OAnd, a, c.BV(w, b.Val-1))
		}
	case OSDiv:
		if b.IsConst() && b.Val == 1 {
			return a
		}
		if b.IsConst() && b.Val != 0 && sext(b.Val, w) > 0 && a.Op == OMul && a.Args[1] == b && MaxBits(a.Args[0])+bits.Len64(b.Val) <= w-1 {
			return a.Args[0] // (x*c)/c, x and x*c non-negative, no overflow
		}
	}
	return c.mk(op, w, 0, "", a, b)
}

func (c *Ctx) Add(a, b *Term) *Term { return c.Bin(OAdd, a, b) }
func (c *Ctx) Sub(a, b *Term) *Term { return c.Bin(OSub, a, b) }
func (c *Ctx) Mul(a, b *Term) *Term { return c.Bin(OMul, a, b) }

func (c *Ctx) Not(a *Term) *Term {
	if a.IsConst() {
		return c.BV(a.W, ^a.Val)
	}
	if a.Op == ONot {
		return a.Args[0]
	}
	return c.mk(ONot, a.W, 0, "", a)
}

func (c *Ctx) Neg(a *Term) *Term {
	if a.IsConst() {
		return c.BV(a.W, -a.Val)
	}
	if a.Op == ONeg {
		return a.Args[0]
	}
	return c.mk(ONeg, a.W, 0, "", a)
}

func (c *Ctx) Concat(hi, lo *Term) *Term {
	if hi.W == 0 || lo.W == 0 {
		panic("concat of bool")
	}
	w := hi.W + lo.W
	if w > 64 {
		panic("concat wider than 64")
	}
	if hi.IsConst() && lo.IsConst() {
		return c.BV(w, hi.Val<<uint(lo.W)|lo.Val)
	}
	if hi.IsConst() && hi.Val == 0 {
		return c.ZExt(lo, w)
	}
	// concat(extract(x,h,m+1), extract(x,m,l)) = extract(x,h,l)
	if hi.Op == OExtract && lo.Op == OExtract && hi.Args[0] == lo.Args[0] {
		hl := int(hi.Val & 0xff)
		lh := int(lo.Val >> 8)
		if hl == lh+1 {
			return c.Extract(hi.Args[0], int(hi.Val>>8), int(lo.Val&0xff))
		}
	}
	return c.mk(OConcat, w, 0, "", hi, lo)
}

// wideningSum: t is a tree of additions whose leaves are constants or zero-extensions of values at most w bits wide.
func wideningSum(t *Term, w, depth int) bool {
	if depth > 200 {
		return false
	}
	switch {
	case t.IsConst():
		return true
	case t.Op == OAdd:
		return wideningSum(t.Args[0], w, depth+1) && wideningSum(t.Args[1], w, depth+1)
	case t.Op == OZExt:
		return t.Args[0].W <= w
	}
	return false
}

func (c *Ctx) Extract(a *Term, hi, lo int) *Term {
	if hi < lo || hi >= a.W || lo < 0 {
		panic(fmt.Sprintf("bad extract [%d:%d] of width %d", hi, lo, a.W))
	}
	w := hi - lo + 1
	if w == a.W {
		return a
	}
	switch a.Op {
	case OConst:
		return c.BV(w, a.Val>>uint(lo))
	case OExtract:
		l0 := int(a.Val & 0xff)
		return c.Extract(a.Args[0], hi+l0, lo+l0)
	case OZExt:
		in := a.Args[0]
		if hi < in.W {
			return c.Extract(in, hi, lo)
		}
		if lo >= in.W {
			return c.BV(w, 0)
		}
		return c.ZExt(c.Extract(in, in.W-1, lo), w)
	case OSExt:
		in := a.Args[0]
		if hi < in.W {
			return c.Extract(in, hi, lo)
		}
		if lo < in.W {
			return c.SExt(c.Extract(in, in.W-1, lo), w)
		}
	case OConcat:
		h, l := a.Args[0], a.Args[1]
		if hi < l.W {
			return c.Extract(l, hi, lo)
		}
		if lo >= l.W {
			return c.Extract(h, hi-l.W, lo-l.W)
		}
		return c.Concat(c.Extract(h, hi-l.W, 0), c.Extract(l, l.W-1, lo))
	case OAnd, OOr, OXor:
		return c.Bin(a.Op, c.Extract(a.Args[0], hi, lo), c.Extract(a.Args[1], hi, lo))
	case ONot:
		return c.Not(c.Extract(a.Args[0], hi, lo))
	case OAdd, OSub, OMul:
		if lo == 0 {
			return c.Bin(a.Op, c.Extract(a.Args[0], hi, 0), c.Extract(a.Args[1], hi, 0))
		}
		if hi+1 < a.W && !noNarrow && a.Op == OAdd && wideningSum(a, hi+1, 0) {
			// a sum of zero-extended narrow values (e.g. byte sums computed in 32- or 64-bit ints): bits
			// hi..lo depend on the low hi+1 bits of the operands only, so compute it in that width - the same
			// sum written with another int width then becomes the same term. (Restricted to such sums: doing
			// this for arbitrary arithmetic made other lemmas much harder for the solver.)
			return c.Extract(c.Extract(a, hi, 0), hi, lo)
		}
	case ONeg:
		if lo == 0 {
			return c.Neg(c.Extract(a.Args[0], hi, 0))
		}
	case OIte:
		if a.Args[1].IsConst() || a.Args[2].IsConst() {
			return c.Ite(a.Args[0], c.Extract(a.Args[1], hi, lo), c.Extract(a.Args[2], hi, lo))
		}
	}
	return c.mk(OExtract, w, uint64(hi)<<8|uint64(lo), "", a)
}

func (c *Ctx) ZExt(a *Term, w int) *Term {
	if w == a.W {
		return a
	}
	if w < a.W {
		panic("zext to narrower")
	}
	if a.IsConst() {
		return c.BV(w, a.Val)
	}
	if a.Op == OZExt {
		return c.ZExt(a.Args[0], w)
	}
	return c.mk(OZExt, w, 0, "", a)
}

func (c *Ctx) SExt(a *Term, w int) *Term {
	if w == a.W {
		return a
	}
	if w < a.W {
		panic("sext to narrower")
	}
	if a.IsConst() {
		return c.BV(w, uint64(sext(a.Val, a.W)))
	}
	if a.Op == OSExt {
		return c.SExt(a.Args[0], w)
	}
	if a.Op == OZExt {
		return c.ZExt(a.Args[0], w)
	}
	return c.mk(OSExt, w, 0, "", a)
}

// Resize converts a to width w, truncating or extending (signed selects sext).
func (c *Ctx) Resize(a *Term, w int, signed bool) *Term {
	if w == a.W {
		return a
	}
	if w < a.W {
		return c.Extract(a, w-1, 0)
	}
	if signed {
		return c.SExt(a, w)
	}
	return c.ZExt(a, w)
}

func (c *Ctx) Ite(cond, a, b *Term) *Term {
	if cond.IsTrue() {
		return a
	}
	if cond.IsFalse() {
		return b
	}
	if a == b {
		return a
	}
	if a.W != b.W {
		panic(fmt.Sprintf("ite width mismatch %d vs %d", a.W, b.W))
	}
	if a.W == 0 {
		if a.IsTrue() && b.IsFalse() {
			return cond
		}
		if a.IsFalse() && b.IsTrue() {
			return c.BNot(cond)
		}
		if a.IsTrue() {
			return c.BOr(cond, b)
		}
		if a.IsFalse() {
			return c.BAnd(c.BNot(cond), b)
		}
		if b.IsTrue() {
			return c.BOr(c.BNot(cond), a)
		}
		if b.IsFalse() {
			return c.BAnd(cond, a)
		}
	}
	if cond.Op == OBNot {
		return c.Ite(cond.Args[0], b, a)
	}
	// ite(c, x, ite(c, y, z)) = ite(c, x, z)
	if b.Op == OIte && b.Args[0] == cond {
		return c.Ite(cond, a, b.Args[2])
	}
	if a.Op == OIte && a.Args[0] == cond {
		return c.Ite(cond, a.Args[1], b)
	}
	return c.mk(OIte, a.W, 0, "", cond, a, b)
}

func (c *Ctx) Eq(a, b *Term) *Term {
	if a.W != b.W {
		panic(fmt.Sprintf("eq width mismatch %d vs %d", a.W, b.W))
	}
	if a == b {
		return c.True()
	}
	if a.IsConst() && b.IsConst() {
		return c.Bool(a.Val == b.Val)
	}
	if a.IsConst() {
		a, b = b, a
	}
	if a.W == 0 {
		if b.IsTrue() {
			return a
		}
		if b.IsFalse() {
			return c.BNot(a)
		}
	}
	if b.IsConst() {
		switch a.Op {
		case OIte:
			// push equality into ite with a constant arm
			if a.Args[1].IsConst() || a.Args[2].IsConst() {
				return c.Ite(a.Args[0], c.Eq(a.Args[1], b), c.Eq(a.Args[2], b))
			}
		case OZExt:
			in := a.Args[0]
			if b.Val > mask(in.W) {
				return c.False()
			}
			return c.Eq(in, c.BV(in.W, b.Val))
		case OConcat:
			l := a.Args[1]
			return c.BAnd(c.Eq(a.Args[0], c.BV(a.Args[0].W, b.Val>>uint(l.W))), c.Eq(l, c.BV(l.W, b.Val)))
		case OAdd:
			if a.Args[1].IsConst() {
				return c.Eq(a.Args[0], c.BV(a.W, b.Val-a.Args[1].Val))
			}
		}
	}
	if a.Op == OMul && b.Op == OMul && a.Args[1].IsConst() && a.Args[1] == b.Args[1] && a.Args[1].Val != 0 {
		k := bits.Len64(a.Args[1].Val)
		if MaxBits(a.Args[0])+k <= a.W && MaxBits(b.Args[0])+k <= a.W {
			return c.Eq(a.Args[0], b.Args[0])
		}
	}
	if !b.IsConst() && a.ID > b.ID {
		a, b = b, a
	}
	return c.mk(OEq, 0, 0, "", a, b)
}

func (c *Ctx) Cmp(op Op, a, b *Term) *Term {
	if a.W != b.W {
		panic(fmt.Sprintf("cmp width mismatch %d vs %d", a.W, b.W))
	}
	if a.IsConst() && b.IsConst() {
		switch op {
		case OUlt:
			return c.Bool(a.Val < b.Val)
		case OUle:
			return c.Bool(a.Val <= b.Val)
		case OSlt:
			return c.Bool(a.SVal() < b.SVal())
		case OSle:
			return c.Bool(a.SVal() <= b.SVal())
		}
	}
	if a == b {
		return c.Bool(op == OUle || op == OSle)
	}
	w := a.W
	switch op {
	case OUlt:
		if b.IsConst() && b.Val == 0 {
			return c.False()
		}
		if a.Op == OZExt && b.IsConst() {
			in := a.Args[0]
			if b.Val > mask(in.W) {
				return c.True()
			}
			return c.Cmp(OUlt, in, c.BV(in.W, b.Val))
		}
		if a.Op == OZExt && b.Op == OZExt && a.Args[0].W == b.Args[0].W {
			return c.Cmp(OUlt, a.Args[0], b.Args[0])
		}
	case OUle:
		if a.IsConst() && a.Val == 0 {
			return c.True()
		}
		if b.IsConst() && b.Val == mask(w) {
			return c.True()
		}
		if a.Op == OZExt && b.IsConst() {
			in := a.Args[0]
			if b.Val >= mask(in.W) {
				return c.True()
			}
			return c.Cmp(OUle, in, c.BV(in.W, b.Val))
		}
	case OSlt:
		// zext values are non-negative
		if a.Op == OZExt && b.IsConst() {
			in := a.Args[0]
			if b.SVal() <= 0 {
				return c.False()
			}
			if b.Val > mask(in.W) {
				return c.True()
			}
			return c.Cmp(OUlt, in, c.BV(in.W, b.Val))
		}
		if b.Op == OZExt && a.IsConst() {
			in := b.Args[0]
			if a.SVal() < 0 {
				return c.True()
			}
			if a.Val >= mask(in.W) {
				return c.False()
			}
			return c.Cmp(OUlt, c.BV(in.W, a.Val), in)
		}
		if a.Op == OZExt && b.Op == OZExt && a.Args[0].W == b.Args[0].W {
			return c.Cmp(OUlt, a.Args[0], b.Args[0])
		}
	case OSle:
		if a.Op == OZExt && b.IsConst() {
			in := a.Args[0]
			if b.SVal() < 0 {
				return c.False()
			}
			if b.Val >= mask(in.W) {
				return c.True()
			}
			return c.Cmp(OUle, in, c.BV(in.W, b.Val))
		}
		if b.Op == OZExt && a.IsConst() {
			in := b.Args[0]
			if a.SVal() <= 0 {
				return c.True()
			}
			if a.Val > mask(in.W) {
				return c.False()
			}
			return c.Cmp(OUle, c.BV(in.W, a.Val), in)
		}
		if a.Op == OZExt && b.Op == OZExt && a.Args[0].W == b.Args[0].W {
			return c.Cmp(OUle, a.Args[0], b.Args[0])
		}
	}
	return c.mk(op, 0, 0, "", a, b)
}

func (c *Ctx) BNot(a *Term) *Term {
	if a.IsConst() {
		return c.Bool(a.Val == 0)
	}
	if a.Op == OBNot {
		return a.Args[0]
	}
	return c.mk(OBNot, 0, 0, "", a)
}

func (c *Ctx) BAnd(a, b *Term) *Term {
	if a.IsFalse() || b.IsFalse() {
		return c.False()
	}
	if a.IsTrue() {
		return b
	}
	if b.IsTrue() {
		return a
	}
	if a == b {
		return a
	}
	if (a.Op == OBNot && a.Args[0] == b) || (b.Op == OBNot && b.Args[0] == a) {
		return c.False()
	}
	if a.ID > b.ID {
		a, b = b, a
	}
	return c.mk(OBAnd, 0, 0, "", a, b)
}

func (c *Ctx) BOr(a, b *Term) *Term {
	if a.IsTrue() || b.IsTrue() {
		return c.True()
	}
	if a.IsFalse() {
		return b
	}
	if b.IsFalse() {
		return a
	}
	if a == b {
		return a
	}
	if (a.Op == OBNot && a.Args[0] == b) || (b.Op == OBNot && b.Args[0] == a) {
		return c.True()
	}
	if a.ID > b.ID {
		a, b = b, a
	}
	return c.mk(OBOr, 0, 0, "", a, b)
}

func (c *Ctx) Implies(a, b *Term) *Term { return c.BOr(c.BNot(a), b) }

func (c *Ctx) AndAll(ts []*Term) *Term {
	r := c.True()
	for _, t := range ts {
		r = c.BAnd(r, t)
	}
	return r
}

// MkTable registers a constant table and returns it (deduplicated by content).
func (c *Ctx) MkTable(w int, vals []uint64) *Table {
	var sb strings.Builder
	fmt.Fprintf(&sb, "%d:", w)
	for _, v := range vals {
		fmt.Fprintf(&sb, "%x,", v)
	}
	k := sb.String()
	if t, ok := c.tabKey[k]; ok {
		return t
	}
	iw := bits.Len(uint(len(vals) - 1))
	if iw == 0 {
		iw = 1
	}
	t := &Table{ID: len(c.Tables), IW: iw, W: w, Vals: append([]uint64(nil), vals...)}
	c.Tables = append(c.Tables, t)
	c.tabKey[k] = t
	return t
}

// Select reads table[idx]; idx may have any width (it is assumed in range by
// the caller, which has already discharged the bounds obligation).
func (c *Ctx) Select(t *Table, idx *Term) *Term {
	if idx.IsConst() {
		if idx.Val < uint64(len(t.Vals)) {
			return c.BV(t.W, t.Vals[idx.Val])
		}
		return c.BV(t.W, 0)
	}
	i := c.Resize(idx, t.IW, false)
	return c.mk(OTable, t.W, uint64(t.ID), "", i)
}

// UF applies an uninterpreted function; result width w (0 = Bool).
func (c *Ctx) UF(name string, w int, args ...*Term) *Term {
	var sb strings.Builder
	fmt.Fprintf(&sb, "(declare-fun %s (", name)
	for _, a := range args {
		sb.WriteString(sortStr(a.W))
		sb.WriteByte(' ')
	}
	fmt.Fprintf(&sb, ") %s)", sortStr(w))
	d := sb.String()
	if old, ok := c.UFs[name]; ok {
		if old != d {
			panic("UF " + name + " redeclared with a different signature")
		}
	} else {
		c.UFs[name] = d
		c.ufOrd = append(c.ufOrd, name)
	}
	return c.mk(OUF, w, 0, name, args...)
}

func sortStr(w int) string {
	if w == 0 {
		return "Bool"
	}
	return fmt.Sprintf("(_ BitVec %d)", w)
}

func constStr(t *Term) string {
	if t.W == 0 {
		if t.Val == 1 {
			return "true"
		}
		return "false"
	}
	if t.W%4 == 0 {
		return fmt.Sprintf("#x%0*x", t.W/4, t.Val)
	}
	return fmt.Sprintf("#b%0*b", t.W, t.Val)
}

func SymName(n string) string {
	ok := true
	for _, r := range n {
		if !(r >= 'a' && r <= 'z' || r >= 'A' && r <= 'Z' || r >= '0' && r <= '9' || r == '_' || r == '!' || r == '.') {
			ok = false
		}
	}
	if ok {
		return n
	}
	return "|" + strings.ReplaceAll(n, "|", "_") + "|"
}

// Printer emits define-funs for terms incrementally (each node once).
type Printer struct {
	c        *Ctx
	emitted  map[int]bool
	tabDone  map[int]bool
	ufDone   map[string]bool
	Vars     map[string]*Term
	varOrder []string
}

func NewPrinter(c *Ctx) *Printer {
	return &Printer{c: c, emitted: map[int]bool{}, tabDone: map[int]bool{}, ufDone: map[string]bool{}, Vars: map[string]*Term{}}
}

func ref(t *Term) string {
	switch t.Op {
	case OConst:
		return constStr(t)
	case OVar:
		return SymName(t.Name)
	}
	return fmt.Sprintf("t%d", t.ID)
}

// Define writes all declarations/definitions needed for t that have not been
// written yet, and returns the reference string for t.
func (p *Printer) Define(sb *strings.Builder, t *Term) string {
	p.define(sb, t)
	return ref(t)
}

func (p *Printer) tableBody(t *Table, lo, hi int, bit int) string {
	// balanced ite over index bits, vals[lo:hi)
	if hi-lo == 1 || bit < 0 {
		v := uint64(0)
		if lo < len(t.Vals) {
			v = t.Vals[lo]
		}
		return constStr(&Term{W: t.W, Val: v & mask(t.W)})
	}
	mid := lo + (1 << uint(bit))
	if mid >= hi {
		return p.tableBody(t, lo, hi, bit-1)
	}
	// all equal shortcut
	same := true
	for i := lo + 1; i < hi && i < len(t.Vals); i++ {
		if t.Vals[i] != t.Vals[lo] {
			same = false
			break
		}
	}
	if same && hi <= len(t.Vals) {
		return constStr(&Term{W: t.W, Val: t.Vals[lo] & mask(t.W)})
	}
	return fmt.Sprintf("(ite (= ((_ extract %d %d) i) #b1) %s %s)", bit, bit, p.tableBody(t, mid, hi, bit-1), p.tableBody(t, lo, mid, bit-1))
}

func (p *Printer) define(sb *strings.Builder, t *Term) {
	if t.Op == OConst || p.emitted[t.ID] {
		return
	}
	// iterative post-order to avoid deep recursion
	type fr struct {
		t *Term
		i int
	}
	st := []fr{{t, 0}}
	for len(st) > 0 {
		f := &st[len(st)-1]
		if f.t.Op == OConst || p.emitted[f.t.ID] {
			st = st[:len(st)-1]
			continue
		}
		if f.i < len(f.t.Args) {
			a := f.t.Args[f.i]
			f.i++
			if a.Op != OConst && !p.emitted[a.ID] {
				st = append(st, fr{a, 0})
			}
			continue
		}
		p.emit1(sb, f.t)
		p.emitted[f.t.ID] = true
		st = st[:len(st)-1]
	}
}

func (p *Printer) emit1(sb *strings.Builder, t *Term) {
	switch t.Op {
	case OVar:
		fmt.Fprintf(sb, "(declare-const %s %s)\n", SymName(t.Name), sortStr(t.W))
		if _, ok := p.Vars[t.Name]; !ok {
			p.Vars[t.Name] = t
			p.varOrder = append(p.varOrder, t.Name)
		}
		return
	case OTable:
		tb := p.c.Tables[t.Val]
		if !p.tabDone[tb.ID] {
			p.tabDone[tb.ID] = true
			n := 1 << uint(tb.IW)
			fmt.Fprintf(sb, "(define-fun tbl%d ((i (_ BitVec %d))) (_ BitVec %d) %s)\n", tb.ID, tb.IW, tb.W, p.tableBody(tb, 0, n, tb.IW-1))
		}
		fmt.Fprintf(sb, "(define-fun t%d () %s (tbl%d %s))\n", t.ID, sortStr(t.W), tb.ID, ref(t.Args[0]))
		return
	case OUF:
		if !p.ufDone[t.Name] {
			p.ufDone[t.Name] = true
			sb.WriteString(p.c.UFs[t.Name])
			sb.WriteByte('\n')
		}
		fmt.Fprintf(sb, "(define-fun t%d () %s (%s", t.ID, sortStr(t.W), SymName(t.Name))
		for _, a := range t.Args {
			sb.WriteByte(' ')
			sb.WriteString(ref(a))
		}
		sb.WriteString("))\n")
		return
	}
	fmt.Fprintf(sb, "(define-fun t%d () %s ", t.ID, sortStr(t.W))
	switch t.Op {
	case OExtract:
		fmt.Fprintf(sb, "((_ extract %d %d) %s)", t.Val>>8, t.Val&0xff, ref(t.Args[0]))
	case OZExt:
		fmt.Fprintf(sb, "((_ zero_extend %d) %s)", t.W-t.Args[0].W, ref(t.Args[0]))
	case OSExt:
		fmt.Fprintf(sb, "((_ sign_extend %d) %s)", t.W-t.Args[0].W, ref(t.Args[0]))
	default:
		sb.WriteByte('(')
		sb.WriteString(opName[t.Op])
		for _, a := range t.Args {
			sb.WriteByte(' ')
			sb.WriteString(ref(a))
		}
		sb.WriteByte(')')
	}
	sb.WriteString(")\n")
}

// VarNames returns the variables declared so far in declaration order.
func (p *Printer) VarNames() []string { return append([]string(nil), p.varOrder...) }

// Eval evaluates t under a model (missing variables = 0). Used to validate
// models and for concrete differential runs.
func (c *Ctx) Eval(t *Term, model map[string]uint64, memo map[int]uint64) uint64 {
	if v, ok := memo[t.ID]; ok {
		return v
	}
	var r uint64
	switch t.Op {
	case OConst:
		r = t.Val
	case OVar:
		r = model[t.Name] & maskB(t.W)
	case ONot:
		r = ^c.Eval(t.Args[0], model, memo) & mask(t.W)
	case ONeg:
		r = -c.Eval(t.Args[0], model, memo) & mask(t.W)
	case OConcat:
		r = c.Eval(t.Args[0], model, memo)<<uint(t.Args[1].W) | c.Eval(t.Args[1], model, memo)
	case OExtract:
		hi, lo := int(t.Val>>8), int(t.Val&0xff)
		r = (c.Eval(t.Args[0], model, memo) >> uint(lo)) & mask(hi-lo+1)
	case OZExt:
		r = c.Eval(t.Args[0], model, memo)
	case OSExt:
		r = uint64(sext(c.Eval(t.Args[0], model, memo), t.Args[0].W)) & mask(t.W)
	case OIte:
		if c.Eval(t.Args[0], model, memo) != 0 {
			r = c.Eval(t.Args[1], model, memo)
		} else {
			r = c.Eval(t.Args[2], model, memo)
		}
	case OEq:
		r = b2u(c.Eval(t.Args[0], model, memo) == c.Eval(t.Args[1], model, memo))
	case OUlt:
		r = b2u(c.Eval(t.Args[0], model, memo) < c.Eval(t.Args[1], model, memo))
	case OUle:
		r = b2u(c.Eval(t.Args[0], model, memo) <= c.Eval(t.Args[1], model, memo))
	case OSlt:
		r = b2u(sext(c.Eval(t.Args[0], model, memo), t.Args[0].W) < sext(c.Eval(t.Args[1], model, memo), t.Args[0].W))
	case OSle:
		r = b2u(sext(c.Eval(t.Args[0], model, memo), t.Args[0].W) <= sext(c.Eval(t.Args[1], model, memo), t.Args[0].W))
	case OBAnd:
		r = c.Eval(t.Args[0], model, memo) & c.Eval(t.Args[1], model, memo)
	case OBOr:
		r = c.Eval(t.Args[0], model, memo) | c.Eval(t.Args[1], model, memo)
	case OBNot:
		r = 1 - c.Eval(t.Args[0], model, memo)
	case OTable:
		tb := c.Tables[t.Val]
		i := c.Eval(t.Args[0], model, memo)
		if i < uint64(len(tb.Vals)) {
			r = tb.Vals[i]
		}
	case OUF:
		r = 0
	default:
		a, b := c.Eval(t.Args[0], model, memo), c.Eval(t.Args[1], model, memo)
		r, _ = c.binConst(t.Op, t.W, a, b)
	}
	memo[t.ID] = r
	return r
}

func maskB(w int) uint64 {
	if w == 0 {
		return 1
	}
	return mask(w)
}

func b2u(b bool) uint64 {
	if b {
		return 1
	}
	return 0
}

// CollectVars returns the names of variables occurring in t, sorted.
func CollectVars(ts ...*Term) []*Term {
	seen := map[int]bool{}
	var out []*Term
	var walk func(t *Term)
	walk = func(t *Term) {
		if seen[t.ID] {
			return
		}
		seen[t.ID] = true
		if t.Op == OVar {
			out = append(out, t)
		}
		for _, a := range t.Args {
			walk(a)
		}
	}
	for _, t := range ts {
		walk(t)
	}
	sort.Slice(out, func(i, j int) bool { return out[i].Name < out[j].Name })
	return out
}

// Size counts distinct nodes reachable from t.
func Size(t *Term) int {
	seen := map[int]bool{}
	var walk func(t *Term)
	walk = func(t *Term) {
		if seen[t.ID] {
			return
		}
		seen[t.ID] = true
		for _, a := range t.Args {
			walk(a)
		}
	}
	walk(t)
	return len(seen)
}
