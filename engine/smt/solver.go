package smt

import (
	"bufio"
	"fmt"
	"io"
	"os"
	"os/exec"
	"regexp"
	"strconv"
	"strings"
	"time"
)

type Verdict int

const (
	Unsat Verdict = iota
	Sat
	Unknown
)

func (v Verdict) String() string { return [...]string{"unsat", "sat", "unknown"}[v] }

// Solver is one long-lived SMT solver process driven over stdin/stdout.
type Solver struct {
	Name      string
	cmd       *exec.Cmd
	in        io.WriteCloser
	out       *bufio.Reader
	p         *Printer
	c         *Ctx
	Queries   int
	Portfolio int // obligations proved by the second solver of the portfolio (cvc5)
	Time      time.Duration
	Errors    []string
	Log       io.Writer
	timeout   time.Duration
	argv      []string
	dead      bool
	nmark     int
	stack     []*Term // assertions currently on the solver's push stack (one level each)
}

func NewSolver(c *Ctx, timeout time.Duration, argv ...string) (*Solver, error) {
	if len(argv) == 0 {
		argv = []string{"z3", "-in"}
	}
	s := &Solver{Name: argv[0], c: c, timeout: timeout, argv: argv}
	if err := s.start(); err != nil {
		return nil, err
	}
	return s, nil
}

func (s *Solver) start() error {
	s.cmd = exec.Command(s.argv[0], s.argv[1:]...)
	in, err := s.cmd.StdinPipe()
	if err != nil {
		return err
	}
	out, err := s.cmd.StdoutPipe()
	if err != nil {
		return err
	}
	s.cmd.Stderr = s.cmd.Stdout
	if err := s.cmd.Start(); err != nil {
		return err
	}
	s.in = in
	s.out = bufio.NewReaderSize(out, 1<<20)
	s.p = NewPrinter(s.c)
	s.dead = false
	s.stack = nil
	s.send("(set-option :global-declarations true)\n")
	if strings.Contains(s.argv[0], "z3") {
		s.send(fmt.Sprintf("(set-option :timeout %d)\n", s.timeout.Milliseconds()))
	} else {
		s.send("(set-option :produce-models true)\n(set-logic ALL)\n")
	}
	return nil
}

func (s *Solver) Close() {
	if s.cmd != nil && s.cmd.Process != nil {
		s.in.Close()
		s.cmd.Process.Kill()
		s.cmd.Wait()
	}
}

func (s *Solver) restart() {
	s.Close()
	s.start()
}

func (s *Solver) send(txt string) {
	if s.Log != nil {
		io.WriteString(s.Log, txt)
	}
	io.WriteString(s.in, txt)
}

// roundtrip sends txt followed by an echo marker and returns the lines
// produced before the marker. A watchdog kills the solver after 2x timeout.
func (s *Solver) roundtrip(txt string) ([]string, bool) {
	s.nmark++
	mark := fmt.Sprintf("MARK%d", s.nmark)
	s.send(txt + "(echo \"" + mark + "\")\n")
	done := make(chan struct{})
	killed := false
	go func() {
		select {
		case <-done:
		case <-time.After(2*s.timeout + 5*time.Second):
			killed = true
			s.cmd.Process.Kill()
		}
	}()
	var lines []string
	ok := true
	for {
		l, err := s.out.ReadString('\n')
		l = strings.TrimSpace(l)
		if strings.Trim(l, "\"") == mark {
			break
		}
		if l != "" {
			lines = append(lines, l)
		}
		if err != nil {
			ok = false
			break
		}
	}
	close(done)
	if killed || !ok {
		s.dead = true
		return lines, false
	}
	return lines, true
}

var valRe = regexp.MustCompile(`\(\s*(\|[^|]*\||[^\s()]+)\s+(#x[0-9a-fA-F]+|#b[01]+|true|false)\s*\)`)

// Check decides satisfiability of the conjunction of assertions. When sat and
// wantModel, the values of all variables declared so far are returned.
func (s *Solver) Check(assertions []*Term, wantModel bool) (Verdict, map[string]uint64, string) {
	if s.dead {
		s.restart()
	}
	t0 := time.Now()
	s.Queries++
	var sb strings.Builder
	refs := make([]string, len(assertions))
	for i, a := range assertions {
		refs[i] = s.p.Define(&sb, a)
	}
	sb.WriteString("(push 1)\n")
	for _, r := range refs {
		fmt.Fprintf(&sb, "(assert %s)\n", r)
	}
	sb.WriteString("(check-sat)\n")
	lines, ok := s.roundtrip(sb.String())
	defer func() { s.Time += time.Since(t0) }()
	if !ok {
		return Unknown, nil, "solver died or watchdog timeout"
	}
	verdict := Unknown
	reason := ""
	for _, l := range lines {
		switch {
		case l == "sat":
			verdict = Sat
		case l == "unsat":
			verdict = Unsat
		case l == "unknown":
			verdict = Unknown
			reason = "unknown"
		case strings.HasPrefix(l, "(error"):
			s.Errors = append(s.Errors, l)
			reason = l
		}
	}
	if reason != "" && strings.HasPrefix(reason, "(error") {
		verdict = Unknown
	}
	var model map[string]uint64
	if verdict == Sat && wantModel {
		model = map[string]uint64{}
		vars := CollectVars(assertions...)
		for i := 0; i < len(vars); i += 200 {
			j := i + 200
			if j > len(vars) {
				j = len(vars)
			}
			var q strings.Builder
			q.WriteString("(get-value (")
			for _, v := range vars[i:j] {
				q.WriteString(SymName(v.Name))
				q.WriteByte(' ')
			}
			q.WriteString("))\n")
			ls, ok := s.roundtrip(q.String())
			if !ok {
				return Unknown, nil, "solver died in get-value"
			}
			txt := strings.Join(ls, " ")
			if strings.Contains(txt, "(error") {
				s.Errors = append(s.Errors, txt)
				return Unknown, nil, txt
			}
			for _, m := range valRe.FindAllStringSubmatch(txt, -1) {
				name := strings.Trim(m[1], "|")
				model[name] = parseVal(m[2])
			}
		}
	}
	ls, ok := s.roundtrip("(pop 1)\n")
	if !ok {
		return Unknown, nil, "solver died at pop"
	}
	for _, l := range ls {
		if strings.HasPrefix(l, "(error") {
			s.Errors = append(s.Errors, l)
			return Unknown, nil, l
		}
	}
	return verdict, model, reason
}

func parseVal(s string) uint64 {
	switch {
	case s == "true":
		return 1
	case s == "false":
		return 0
	case strings.HasPrefix(s, "#x"):
		v, _ := strconv.ParseUint(s[2:], 16, 64)
		return v
	case strings.HasPrefix(s, "#b"):
		v, _ := strconv.ParseUint(s[2:], 2, 64)
		return v
	}
	return 0
}

// CheckPC decides pc ∧ extra, keeping the solver's assertion stack aligned with pc
// (one push level per pc term) so that consecutive queries on a growing path condition
// only send what is new.
func (s *Solver) CheckPC(pc []*Term, extra *Term, wantModel bool) (Verdict, map[string]uint64, string) {
	if s.dead {
		s.restart()
	}
	t0 := time.Now()
	s.Queries++
	defer func() { s.Time += time.Since(t0) }()
	// common prefix
	k := 0
	for k < len(pc) && k < len(s.stack) && pc[k] == s.stack[k] {
		k++
	}
	var sb strings.Builder
	if n := len(s.stack) - k; n > 0 {
		fmt.Fprintf(&sb, "(pop %d)\n", n)
	}
	s.stack = s.stack[:k]
	for _, t := range pc[k:] {
		r := s.p.Define(&sb, t)
		fmt.Fprintf(&sb, "(push 1)\n(assert %s)\n", r)
		s.stack = append(s.stack, t)
	}
	r := s.p.Define(&sb, extra)
	fmt.Fprintf(&sb, "(push 1)\n(assert %s)\n(check-sat)\n", r)
	lines, ok := s.roundtrip(sb.String())
	if !ok {
		return Unknown, nil, "solver died or watchdog timeout"
	}
	verdict := Unknown
	reason := ""
	for _, l := range lines {
		switch {
		case l == "sat":
			verdict = Sat
		case l == "unsat":
			verdict = Unsat
		case l == "unknown":
			verdict = Unknown
			reason = "unknown"
		case strings.HasPrefix(l, "(error"):
			s.Errors = append(s.Errors, l)
			reason = l
		}
	}
	if strings.HasPrefix(reason, "(error") {
		verdict = Unknown
		s.dead = true // resynchronise from scratch
		return verdict, nil, reason
	}
	var model map[string]uint64
	if verdict == Sat && wantModel {
		model = map[string]uint64{}
		all := append(append([]*Term(nil), pc...), extra)
		vars := CollectVars(all...)
		for i := 0; i < len(vars); i += 200 {
			j := i + 200
			if j > len(vars) {
				j = len(vars)
			}
			var q strings.Builder
			q.WriteString("(get-value (")
			for _, v := range vars[i:j] {
				q.WriteString(SymName(v.Name))
				q.WriteByte(' ')
			}
			q.WriteString("))\n")
			ls, ok := s.roundtrip(q.String())
			if !ok {
				return Unknown, nil, "solver died in get-value"
			}
			txt := strings.Join(ls, " ")
			if strings.Contains(txt, "(error") {
				s.Errors = append(s.Errors, txt)
				s.dead = true
				return Unknown, nil, txt
			}
			for _, m := range valRe.FindAllStringSubmatch(txt, -1) {
				model[strings.Trim(m[1], "|")] = parseVal(m[2])
			}
		}
	}
	ls, ok := s.roundtrip("(pop 1)\n")
	if !ok {
		return Unknown, nil, "solver died at pop"
	}
	for _, l := range ls {
		if strings.HasPrefix(l, "(error") {
			s.Errors = append(s.Errors, l)
			s.dead = true
			return Unknown, nil, l
		}
	}
	return verdict, model, reason
}

// SetTimeout changes the per-query timeout of the incremental solver.
func (s *Solver) SetTimeout(d time.Duration) {
	if s.dead {
		s.restart()
	}
	if strings.Contains(s.argv[0], "z3") {
		s.send(fmt.Sprintf("(set-option :timeout %d)\n", d.Milliseconds()))
	}
}

// CheckFresh decides the conjunction in a NEW solver process (non-incremental mode: z3 then runs its
// full preprocessing pipeline, which decides many bit-vector queries the incremental core cannot).
func (s *Solver) CheckFresh(assertions []*Term, wantModel bool, timeout time.Duration) (Verdict, map[string]uint64, string) {
	t0 := time.Now()
	s.Queries++
	defer func() { s.Time += time.Since(t0) }()
	var sb strings.Builder
	p := NewPrinter(s.c)
	sb.WriteString("(set-option :global-declarations true)\n")
	refs := make([]string, len(assertions))
	for i, a := range assertions {
		refs[i] = p.Define(&sb, a)
	}
	for _, r := range refs {
		fmt.Fprintf(&sb, "(assert %s)\n", r)
	}
	sb.WriteString("(check-sat)\n")
	vars := CollectVars(assertions...)
	if wantModel && len(vars) > 0 {
		for i := 0; i < len(vars); i += 200 {
			j := i + 200
			if j > len(vars) {
				j = len(vars)
			}
			sb.WriteString("(get-value (")
			for _, v := range vars[i:j] {
				sb.WriteString(SymName(v.Name))
				sb.WriteByte(' ')
			}
			sb.WriteString("))\n")
		}
	}
	if d := os.Getenv("VERIF_FRESHDUMP"); d != "" {
		os.WriteFile(fmt.Sprintf("%s/fresh_%d.smt2", d, s.Queries), []byte(sb.String()), 0o644)
	}
	argv := []string{"z3", fmt.Sprintf("-T:%d", int(timeout.Seconds())+1), "-in"}
	if !strings.Contains(s.argv[0], "z3") {
		argv = append([]string{}, s.argv...)
	} else if s.argv[0] != "z3" {
		argv[0] = s.argv[0]
	}
	cmd := exec.Command(argv[0], argv[1:]...)
	cmd.Stdin = strings.NewReader(sb.String())
	done := make(chan struct{})
	var out []byte
	go func() { out, _ = cmd.CombinedOutput(); close(done) }()
	// portfolio: a second solver (cvc5, a different bit-vector rewriter/bit-blaster) works on the same
	// query; only its UNSAT answer is used (proof of the obligation) - a model always comes from z3
	var cmd2 *exec.Cmd
	unsat2 := make(chan bool, 1)
	if path, err := exec.LookPath("cvc5"); err == nil && os.Getenv("VERIF_NO_PORTFOLIO") == "" && strings.Contains(argv[0], "z3") {
		q := sb.String()
		if i := strings.Index(q, "(get-value"); i >= 0 {
			q = q[:i]
		}
		cmd2 = exec.Command(path, "--lang=smt2", fmt.Sprintf("--tlimit=%d", (int(timeout.Seconds())+1)*1000))
		cmd2.Stdin = strings.NewReader("(set-logic ALL)\n" + strings.Replace(q, "(set-option :global-declarations true)\n", "", 1))
		go func() {
			o, _ := cmd2.Output()
			first := strings.TrimSpace(strings.SplitN(string(o), "\n", 2)[0])
			unsat2 <- first == "unsat" && !strings.Contains(string(o), "(error")
		}()
	}
	killAll := func() {
		if cmd.Process != nil {
			cmd.Process.Kill()
		}
		if cmd2 != nil && cmd2.Process != nil {
			cmd2.Process.Kill()
		}
	}
	watchdog := time.After(timeout + 10*time.Second)
wait:
	for {
		select {
		case <-done:
			if cmd2 != nil && cmd2.Process != nil {
				// z3 answered; if it is undecided give cvc5 the rest of the budget
				if t := string(out); !strings.Contains(t, "unsat") && !strings.HasPrefix(strings.TrimSpace(t), "sat") {
					select {
					case u := <-unsat2:
						if u {
							s.Portfolio++
							return Unsat, nil, ""
						}
					case <-watchdog:
					}
				}
				cmd2.Process.Kill()
			}
			break wait
		case u := <-unsat2:
			if u {
				killAll()
				<-done
				s.Portfolio++
				return Unsat, nil, ""
			}
			unsat2 = nil // cvc5 finished without a proof: wait for z3 alone
		case <-watchdog:
			killAll()
			<-done
			return Unknown, nil, "fresh solver watchdog timeout"
		}
	}
	txt := string(out)
	lines := strings.Split(txt, "\n")
	verdict := Unknown
	for _, l := range lines {
		l = strings.TrimSpace(l)
		if l == "sat" {
			verdict = Sat
			break
		}
		if l == "unsat" {
			verdict = Unsat
			break
		}
		if l == "unknown" || l == "timeout" {
			return Unknown, nil, "unknown"
		}
		if strings.HasPrefix(l, "(error") {
			s.Errors = append(s.Errors, l)
			return Unknown, nil, l
		}
	}
	if verdict == Unsat && strings.Contains(txt, "(error") && !wantModel {
		return Unknown, nil, "error in fresh solver output"
	}
	var model map[string]uint64
	if verdict == Sat && wantModel {
		model = map[string]uint64{}
		for _, m := range valRe.FindAllStringSubmatch(txt, -1) {
			model[strings.Trim(m[1], "|")] = parseVal(m[2])
		}
	}
	return verdict, model, ""
}
