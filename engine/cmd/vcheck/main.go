// vcheck: solver-based checks of deepteams/webp (see /verif/DESIGN.md).
package main

import (
	"encoding/json"
	"go/ast"
	"go/parser"
	"go/token"
	"flag"
	"fmt"
	"os"
	"os/exec"
	"path/filepath"
	"runtime"
	"sort"
	"strconv"
	"strings"
	"sync"
	"time"

	"verif/engine/sym"
)

type HarnessSpec struct {
	Prop    string                 `json:"prop"`
	Pkg     string                 `json:"pkg"` // relative to the module root ("" = root package)
	Fn      string                 `json:"fn"`
	Shapes  map[string]interface{} `json:"shapes"` // tier -> [[args]] or "a..b"
	Arch    string                 `json:"arch"`
	Timeout int                    `json:"timeout_s"`
	QTimeout int                   `json:"query_timeout_s"`
	UF      []string               `json:"uf"`
	Desc    string                 `json:"desc"`
	Assume  []string               `json:"assumptions"`
	NoReplay bool                  `json:"no_replay"`
	Unwind  int                    `json:"unwind"`
	MaxPaths int                   `json:"max_paths"`
	Redirect map[string]string     `json:"redirect"`
	RedirectSet string             `json:"redirect_set"`
	ForkIn  []string               `json:"fork_in"`
	Havoc   []string               `json:"havoc"`
	ForkAll []string               `json:"fork_all"`
	NativeRedirect bool            `json:"native_redirect"`
	FloatTaint bool                `json:"float_taint"`
	RaceCheck bool                 `json:"race_check"`
	Typecheck []string             `json:"typecheck"` // "goos/goarch" targets: the current tree must load (type-check + SSA) for each
	Solver  []string               `json:"solver"`
	BMC     *BMCSpec               `json:"bmc"`
}

type SourcePatch struct {
	File string `json:"file"`
	From string `json:"from"`
	To   string `json:"to"`
}

type Props struct {
	SourcePatches map[string][]SourcePatch    `json:"source_patches"` // property id -> textual patches of /repo files applied through the overlay (threshold scaling)
	Harnesses    []HarnessSpec                `json:"harnesses"`
	RedirectSets map[string]map[string]string `json:"redirect_sets"`
}

type KnownFinding struct {
	Property string `json:"property"`
	ID       string `json:"id"`
	Harness  string `json:"harness"`
	Status   string `json:"status"`
	Commit   string `json:"commit,omitempty"`
	What     string `json:"what"`
}

const modPath = "github.com/deepteams/webp"

var (
	verifDir = "/verif"
	repoDir  = "/repo"
	outDir   = "/verif" // evidence/ and replay/ are written below it
)

func main() {
	// scratch runs (mutant testing in a worktree) only: the registered commands never set these
	if d := os.Getenv("VERIF_REPO"); d != "" {
		repoDir = d
	}
	if d := os.Getenv("VERIF_OUT"); d != "" {
		outDir = d
	}
	prop := flag.String("prop", "", "property id (C01..C20)")
	tier := flag.String("tier", "quick", "quick|thorough")
	run := flag.String("run", "", "debug: run one harness pkg:Fn")
	argS := flag.String("args", "", "debug: comma separated integer args")
	arch := flag.String("arch", "riscv64", "GOARCH for the encoding")
	workers := flag.Int("j", 0, "workers")
	debug := flag.Bool("debug", false, "debug output")
	replay := flag.String("replay", "", "replay a counterexample file natively")
	only := flag.String("only", "", "only harnesses whose name contains this")
	noReplay := flag.Bool("noreplay", false, "skip native replay of counterexamples")
	redirS := flag.String("redirect", "", "debug: from=to,from=to")
	ufS := flag.String("uf", "", "debug: comma separated functions to replace by uninterpreted functions")
	flag.StringVar(&repoDir, "repo", repoDir, "repository directory")
	flag.StringVar(&verifDir, "verif", "/verif", "verif directory")
	flag.Parse()
	if t := os.Getenv("VERIF_TIER"); t != "" && *tier == "quick" {
		*tier = t
	}
	if *workers == 0 {
		*workers = runtime.NumCPU()
		if *workers > 16 {
			*workers = 16
		}
	}
	if *replay != "" {
		ok, out := nativeReplay(*replay)
		fmt.Println(out)
		if ok {
			fmt.Println("REPLAY: violation reproduced")
			os.Exit(1)
		}
		fmt.Println("REPLAY: not reproduced")
		os.Exit(0)
	}
	if *run != "" {
		parts := strings.SplitN(*run, ":", 2)
		var args []int64
		if *argS != "" {
			for _, a := range strings.Split(*argS, ",") {
				v, _ := strconv.ParseInt(strings.TrimSpace(a), 10, 64)
				args = append(args, v)
			}
		}
		ovr := overlay()
		for _, h := range loadProps().Harnesses {
			if h.Fn == parts[1] {
				if patched, err := patchedSources(loadProps(), h.Prop); err == nil {
					for k, v := range patched {
						ovr[k] = v
					}
				} else {
					fmt.Println("PATCH ERROR:", err)
					os.Exit(2)
				}
				break
			}
		}
		p, err := sym.Load(repoDir, *arch, ovr, "./...")
		if err != nil {
			fmt.Println("LOAD ERROR:", err)
			os.Exit(2)
		}
		var sargv []string
		if sv := os.Getenv("VERIF_SOLVER"); sv != "" {
			sargv = strings.Fields(sv)
		}
		qt := 60 * time.Second
		if q := os.Getenv("VERIF_QTIMEOUT"); q != "" {
			n, _ := strconv.Atoi(q)
			qt = time.Duration(n) * time.Second
		}
		e, err := sym.NewEngine(p, sym.Options{Debug: *debug, Timeout: qt, SolverArgv: sargv})
		if err != nil {
			panic(err)
		}
		if *redirS != "" {
			for _, kv := range strings.Split(*redirS, ",") {
				p := strings.SplitN(kv, "=", 2)
				e.Redirect[expandName(p[0])] = expandName(p[1])
			}
		}
		if *ufS != "" {
			for _, u := range strings.Split(*ufS, ",") {
				e.UFStubs[expandName(u)] = true
			}
		}
		// in debug mode take harness settings from the props files when present
		for _, h := range loadProps().Harnesses {
			if h.Fn == parts[1] {
				for k, v := range h.Redirect {
					e.Redirect[expandName(k)] = expandName(v)
				}
				for _, u := range h.UF {
					e.UFStubs[expandName(u)] = true
				}
				for _, f := range h.ForkIn {
					e.ForkIn[expandName(f)] = true
				}
				for _, f := range h.Havoc {
					e.Havoc[expandName(f)] = true
				}
				for _, f := range h.ForkAll {
					e.ForkAll[expandName(f)] = true
				}
				e.FloatTaint = h.FloatTaint
				e.RaceCheck = h.RaceCheck
			}
		}
		r := e.RunHarness(pkgPath(parts[0]), parts[1], args, 0)
		b, _ := json.MarshalIndent(r, "", " ")
		fmt.Println(string(b))
		return
	}
	if *prop == "" {
		fmt.Println("usage: vcheck -prop Cnn [-tier quick|thorough]")
		os.Exit(2)
	}
	os.Exit(runProp(*prop, *tier, *workers, *debug, *only, *noReplay))
}

// expandName turns "webp/internal/lossless.Encode" or "webp.foo" into the full import path form.
func expandName(n string) string {
	if strings.HasPrefix(n, "webp/") {
		return modPath + n[4:]
	}
	if strings.HasPrefix(n, "webp.") {
		return modPath + n[4:]
	}
	if strings.HasPrefix(n, "(*webp/") {
		return "(*" + modPath + n[6:]
	}
	return n
}

func pkgPath(rel string) string {
	if rel == "" || rel == "." {
		return modPath
	}
	return modPath + "/" + rel
}

// overlay maps /verif/harness/overlay/** onto the repository tree.
func overlay() map[string][]byte {
	ov := map[string][]byte{}
	root := filepath.Join(verifDir, "harness", "overlay")
	filepath.Walk(root, func(p string, info os.FileInfo, err error) error {
		if err != nil || info.IsDir() {
			return nil
		}
		rel, _ := filepath.Rel(root, p)
		b, err := os.ReadFile(p)
		if err == nil {
			ov[filepath.Join(repoDir, rel)] = b
		}
		return nil
	})
	return ov
}

// patchedSources returns overlay entries for the property's threshold-scaling patches: a textually
// patched copy of the CURRENT source file. A pattern that no longer matches is an error (never a silent pass).
func patchedSources(ps Props, prop string) (map[string][]byte, error) {
	out := map[string][]byte{}
	for _, sp := range ps.SourcePatches[prop] {
		path := filepath.Join(repoDir, sp.File)
		b, ok := out[path]
		if !ok {
			var err error
			b, err = os.ReadFile(path)
			if err != nil {
				return nil, err
			}
		}
		if strings.Count(string(b), sp.From) != 1 {
			return nil, fmt.Errorf("source patch for %s: pattern %q occurs %d times in %s (expected once)", prop, sp.From, strings.Count(string(b), sp.From), sp.File)
		}
		out[path] = []byte(strings.Replace(string(b), sp.From, sp.To, 1))
	}
	return out, nil
}

func loadProps() Props {
	var ps Props
	files, _ := filepath.Glob(filepath.Join(verifDir, "harness", "props", "*.json"))
	sort.Strings(files)
	for _, f := range files {
		b, err := os.ReadFile(f)
		if err != nil {
			panic(err)
		}
		var p Props
		if err := json.Unmarshal(b, &p); err != nil {
			fmt.Fprintf(os.Stderr, "bad props file %s: %v\n", f, err)
			os.Exit(2)
		}
		ps.Harnesses = append(ps.Harnesses, p.Harnesses...)
		for k, v := range p.SourcePatches {
			if ps.SourcePatches == nil {
				ps.SourcePatches = map[string][]SourcePatch{}
			}
			ps.SourcePatches[k] = append(ps.SourcePatches[k], v...)
		}
		for k, v := range p.RedirectSets {
			if ps.RedirectSets == nil {
				ps.RedirectSets = map[string]map[string]string{}
			}
			ps.RedirectSets[k] = v
		}
	}
	for i := range ps.Harnesses {
		h := &ps.Harnesses[i]
		if h.RedirectSet != "" {
			set, ok := ps.RedirectSets[h.RedirectSet]
			if !ok {
				fmt.Fprintf(os.Stderr, "unknown redirect_set %q\n", h.RedirectSet)
				os.Exit(2)
			}
			if h.Redirect == nil {
				h.Redirect = map[string]string{}
			}
			for k, v := range set {
				if _, ok := h.Redirect[k]; !ok {
					h.Redirect[k] = v
				}
			}
		}
	}
	return ps
}

func shapesFor(h HarnessSpec, tier string) [][]int64 {
	v, ok := h.Shapes[tier]
	if !ok && tier == "thorough" {
		v, ok = h.Shapes["quick"]
	}
	if !ok {
		return nil
	}
	var out [][]int64
	switch s := v.(type) {
	case string:
		// "a..b" single-argument range, or "a..b;c..d" cartesian product; "p1 | p2" = union of products
		if strings.Contains(s, "|") {
			for _, part := range strings.Split(s, "|") {
				h2 := h
				h2.Shapes = map[string]interface{}{tier: strings.TrimSpace(part)}
				out = append(out, shapesFor(h2, tier)...)
			}
			return out
		}
		dims := strings.Split(s, ";")
		out = [][]int64{nil}
		for _, d := range dims {
			var vals []int64
			for _, part := range strings.Split(d, ",") {
				if strings.Contains(part, "..") {
					ab := strings.SplitN(part, "..", 2)
					a, _ := strconv.ParseInt(strings.TrimSpace(ab[0]), 10, 64)
					b, _ := strconv.ParseInt(strings.TrimSpace(ab[1]), 10, 64)
					for i := a; i <= b; i++ {
						vals = append(vals, i)
					}
				} else {
					a, _ := strconv.ParseInt(strings.TrimSpace(part), 10, 64)
					vals = append(vals, a)
				}
			}
			var nx [][]int64
			for _, pre := range out {
				for _, vv := range vals {
					nx = append(nx, append(append([]int64(nil), pre...), vv))
				}
			}
			out = nx
		}
	case []interface{}:
		for _, row := range s {
			var r []int64
			switch rr := row.(type) {
			case []interface{}:
				for _, c := range rr {
					r = append(r, int64(c.(float64)))
				}
			case float64:
				r = []int64{int64(rr)}
			}
			out = append(out, r)
		}
	}
	return out
}

type job struct {
	h    HarnessSpec
	args []int64
}

type jobResult struct {
	job job
	res *sym.Result
	bmc *bmcReplay
}

func runProp(prop, tier string, workers int, debug bool, only string, noReplay bool) int {
	t0 := time.Now()
	ps := loadProps()
	var known []KnownFinding
	if b, err := os.ReadFile(filepath.Join(verifDir, "known_findings.json")); err == nil {
		if err := json.Unmarshal(b, &known); err != nil {
			fmt.Println("bad known_findings.json:", err)
			return 2
		}
	}
	openKnown := map[string]KnownFinding{}
	for _, k := range known {
		if k.Status == "open" && k.Property == prop {
			openKnown[k.ID] = k
		}
	}
	var jobs []job
	arches := map[string]bool{}
	for _, h := range ps.Harnesses {
		if h.Prop != prop {
			continue
		}
		if only != "" && !strings.Contains(h.Fn, only) {
			continue
		}
		if h.Arch == "" {
			h.Arch = "riscv64"
		}
		for _, a := range shapesFor(h, tier) {
			if f := os.Getenv("VERIF_SHAPE"); f != "" && f != strings.Trim(strings.ReplaceAll(fmt.Sprint(a), " ", ","), "[]") {
				continue // debugging aid: run one shape only
			}
			jobs = append(jobs, job{h, a})
			arches[h.Arch] = true
		}
	}
	// portability targets: the front end must accept the current tree for every listed GOOS/GOARCH
	tcFail := 0
	var tcResults []jobResult
	for _, h := range ps.Harnesses {
		if h.Prop != prop || len(h.Typecheck) == 0 {
			continue
		}
		type tr struct {
			tgt string
			err error
			dt  time.Duration
		}
		ch := make(chan tr, len(h.Typecheck))
		sem := make(chan struct{}, 4)
		for _, tgt := range h.Typecheck {
			go func(tgt string) {
				sem <- struct{}{}
				defer func() { <-sem }()
				t1 := time.Now()
				parts := strings.SplitN(tgt, "/", 2)
				_, err := sym.LoadOS(repoDir, parts[0], parts[1], nil, "./...")
				ch <- tr{tgt, err, time.Since(t1)}
			}(tgt)
		}
		for range h.Typecheck {
			r := <-ch
			res := &sym.Result{Harness: h.Fn + "[" + r.tgt + "]", Wall: r.dt, Covers: map[string]bool{}, Obligations: 1}
			if r.err != nil {
				tcFail++
				dir := filepath.Join(outDir, "replay", prop)
				os.MkdirAll(dir, 0o755)
				path := filepath.Join(dir, "typecheck-"+strings.ReplaceAll(r.tgt, "/", "_")+".json")
				b, _ := json.MarshalIndent(map[string]interface{}{"property": prop, "typecheck": r.tgt, "failed": r.err.Error()}, "", " ")
				os.WriteFile(path, b, 0o644)
				fmt.Printf("  the module does not type-check for %s:\n%s\n", r.tgt, firstLines(r.err.Error(), 6))
				fmt.Printf("VIOLATION property=%s replay=%s\n", prop, path)
				res.Err = ""
				res.Violations = []sym.Violation{{Kind: "typecheck", Msg: r.tgt}}
			} else {
				res.Discharged = 1
				res.Nondets = 1
				fmt.Printf("  type-check %-16s ok (%.1fs)\n", r.tgt, r.dt.Seconds())
			}
			tcResults = append(tcResults, jobResult{job{h, nil}, res, nil})
		}
	}
	if len(jobs) == 0 && len(tcResults) == 0 {
		fmt.Printf("no harness registered for %s tier %s\n", prop, tier)
		return 2
	}
	ov := overlay()
	patched, perr := patchedSources(ps, prop)
	if perr != nil {
		fmt.Printf("INCONCLUSIVE property=%s: %v\n", prop, perr)
		writeEvidence(prop, tier, nil, time.Since(t0), 0, []string{perr.Error()})
		return 2
	}
	for k, v := range patched {
		ov[k] = v
	}
	progs := map[string]*sym.Program{}
	for a := range arches {
		p, err := sym.Load(repoDir, a, ov, "./...")
		if err != nil {
			fmt.Printf("INCONCLUSIVE property=%s: cannot load %s for GOARCH=%s:\n%v\n", prop, repoDir, a, err)
			writeEvidence(prop, tier, nil, time.Since(t0), 0, []string{"load error: " + err.Error()})
			return 2
		}
		progs[a] = p
	}
	fmt.Printf("loaded %s (%d arch) in %.1fs; %d harness instances, %d workers\n", repoDir, len(progs), time.Since(t0).Seconds(), len(jobs), workers)
	// longest-first is unknown; keep declared order
	jc := make(chan job)
	rc := make(chan jobResult)
	var wg sync.WaitGroup
	for w := 0; w < workers; w++ {
		wg.Add(1)
		go func() {
			defer wg.Done()
			for j := range jc {
				if j.h.BMC != nil {
					r, rep := runBMCInstance(progs[j.h.Arch], j.h, j.args)
					rc <- jobResult{j, r, rep}
					continue
				}
				to := time.Duration(j.h.Timeout) * time.Second
				if to == 0 {
					to = 300 * time.Second
				}
				qto := time.Duration(j.h.QTimeout) * time.Second
				if qto == 0 {
					qto = 30 * time.Second
				}
				e, err := sym.NewEngine(progs[j.h.Arch], sym.Options{Timeout: qto, Debug: debug, Unwind: j.h.Unwind, MaxPaths: j.h.MaxPaths, MaxViol: 1, SolverArgv: j.h.Solver})
				if err != nil {
					rc <- jobResult{j, &sym.Result{Harness: j.h.Fn, Args: j.args, Err: err.Error()}, nil}
					continue
				}
				for _, u := range j.h.UF {
					e.UFStubs[expandName(u)] = true
				}
				for k, v := range j.h.Redirect {
					e.Redirect[expandName(k)] = expandName(v)
				}
				for _, f := range j.h.ForkIn {
					e.ForkIn[expandName(f)] = true
				}
				for _, f := range j.h.Havoc {
					e.Havoc[expandName(f)] = true
				}
				for _, f := range j.h.ForkAll {
					e.ForkAll[expandName(f)] = true
				}
				e.FloatTaint = j.h.FloatTaint
				e.RaceCheck = j.h.RaceCheck
				e.KnownOpen = map[string]bool{}
				for id := range openKnown {
					e.KnownOpen[id] = true
				}
				r := e.RunHarness(pkgPath(j.h.Pkg), j.h.Fn, j.args, to)
				e.Close()
				rc <- jobResult{j, r, nil}
			}
		}()
	}
	go func() {
		for _, j := range jobs {
			jc <- j
		}
		close(jc)
		wg.Wait()
		close(rc)
	}()
	results := append([]jobResult(nil), tcResults...)
	for r := range rc {
		results = append(results, r)
		status := "ok"
		if r.res.Err != "" {
			status = "ERROR " + r.res.Err
		} else if len(r.res.Violations) > 0 {
			status = fmt.Sprintf("%d violation(s)", len(r.res.Violations))
		} else if len(r.res.Inconclusive) > 0 {
			status = "inconclusive: " + r.res.Inconclusive[0]
		}
		fmt.Printf("  %-40s %-22s paths=%-4d obl=%d/%d q=%d solver=%.1fs wall=%.1fs %s\n", r.job.h.Fn, fmt.Sprint(r.res.Args), r.res.Paths, r.res.Discharged, r.res.Obligations, r.res.Queries, r.res.SolverTime.Seconds(), r.res.Wall.Seconds(), status)
	}
	sort.Slice(results, func(i, j int) bool {
		if results[i].job.h.Fn != results[j].job.h.Fn {
			return results[i].job.h.Fn < results[j].job.h.Fn
		}
		return fmt.Sprint(results[i].res.Args) < fmt.Sprint(results[j].res.Args)
	})
	// classify
	exit := 0
	nviol := tcFail
	if tcFail > 0 {
		exit = 1
	}
	var notes []string
	knownSeen := map[string]bool{}
	replayed := map[string]int{}
	var candNotes []string
	for _, r := range results {
		if r.res.Err != "" {
			fmt.Printf("INCONCLUSIVE property=%s harness=%s args=%v: %s\n", prop, r.job.h.Fn, r.res.Args, r.res.Err)
			notes = append(notes, fmt.Sprintf("%s%v: %s", r.job.h.Fn, r.res.Args, r.res.Err))
			if exit == 0 {
				exit = 2
			}
		}
		for _, inc := range r.res.Inconclusive {
			fmt.Printf("INCONCLUSIVE property=%s harness=%s args=%v: %s\n", prop, r.job.h.Fn, r.res.Args, inc)
			notes = append(notes, fmt.Sprintf("%s%v: %s", r.job.h.Fn, r.res.Args, inc))
			if exit == 0 {
				exit = 2
			}
		}
		for name, hit := range r.res.Covers {
			if !hit {
				// a cover must be hit in at least one instance of the harness: checked below
				_ = name
			}
		}
		for vi, v := range r.res.Violations {
			if v.Kind == "typecheck" {
				continue
			}
			if k, ok := openKnown[v.Known]; ok && v.Known != "" {
				if !knownSeen[k.ID] {
					fmt.Printf("KNOWN-FINDING: property=%s %s [%s]\n", prop, k.What, k.ID)
					knownSeen[k.ID] = true
				}
				continue
			}
			// write replay file and confirm natively
			var path string
			confirmed := true
			out := ""
			if v.Kind == "bmc" {
				path = writeBMCReplay(prop, r.bmc, r.res.Args)
				fmt.Printf("  bmc counterexample schedule:\n    %s\n", strings.Join(v.Stack, "\n    "))
				if !noReplay {
					confirmed, out = bmcNativeReplay(path)
				}
			} else if path = writeReplay(prop, r.job, v, vi); !noReplay && !r.job.h.NoReplay {
				site := r.job.h.Fn + "|" + v.Pos
				if replayed[site] >= 2 {
					fmt.Printf("  further counterexample at an already confirmed site (not replayed): %s %v %s\n", r.job.h.Fn, r.res.Args, v.Pos)
					continue
				}
				confirmed, out = nativeReplay(path)
				if confirmed {
					replayed[site]++
				}
			}
			if confirmed {
				fmt.Printf("  counterexample: %s %s at %s\n", v.Kind, v.Msg, v.Pos)
				fmt.Printf("VIOLATION property=%s replay=%s\n", prop, path)
				nviol++
				exit = 1
			} else if v.Kind == "candidate" {
				fmt.Printf("  NOTE property=%s harness=%s args=%v: sufficient-condition candidate (%s) not confirmed by native replay: the stricter condition fails but the property itself holds on this input\n", prop, r.job.h.Fn, r.res.Args, v.Msg)
				candNotes = append(candNotes, fmt.Sprintf("%s%v: candidate '%s' not confirmed natively", r.job.h.Fn, r.res.Args, v.Msg))
			} else {
				fmt.Printf("INCONCLUSIVE property=%s harness=%s args=%v: solver counterexample (%s: %s at %s) did not reproduce natively; encoding or stub suspect\n%s\n", prop, r.job.h.Fn, r.res.Args, v.Kind, v.Msg, v.Pos, out)
				notes = append(notes, fmt.Sprintf("%s%v: counterexample did not replay", r.job.h.Fn, r.res.Args))
				if exit == 0 {
					exit = 2
				}
			}
		}
	}
	// vacuity: every cover label of a harness must be reached by at least one instance
	covers := map[string]bool{}
	for _, r := range results {
		for name, hit := range r.res.Covers {
			key := r.job.h.Fn + ": " + name
			covers[key] = covers[key] || hit
		}
	}
	for k, hit := range covers {
		if !hit {
			fmt.Printf("VACUOUS property=%s cover never reached: %s\n", prop, k)
			notes = append(notes, "cover never reached: "+k)
			if exit == 0 {
				exit = 2
			}
		}
	}
	notes = append(notes, candNotes...)
	writeEvidence(prop, tier, results, time.Since(t0), nviol, notes)
	if exit == 0 {
		fmt.Printf("OK property=%s tier=%s instances=%d wall=%.1fs\n", prop, tier, len(results), time.Since(t0).Seconds())
	}
	return exit
}

type replayDoc struct {
	Property string            `json:"property"`
	Harness  string            `json:"harness"`
	Pkg      string            `json:"pkg"`
	Args     []int64           `json:"args"`
	Arch     string            `json:"goarch"`
	Failed   string            `json:"failed"`
	Stack    []string          `json:"stack"`
	Model    map[string]uint64 `json:"model"`
}

func writeReplay(prop string, j job, v sym.Violation, n int) string {
	dir := filepath.Join(outDir, "replay", prop)
	os.MkdirAll(dir, 0o755)
	var as []string
	for _, a := range j.args {
		as = append(as, strconv.FormatInt(a, 10))
	}
	path := filepath.Join(dir, fmt.Sprintf("%s-%s-%d.json", j.h.Fn, strings.Join(as, "_"), n))
	doc := replayDoc{Property: prop, Harness: j.h.Fn, Pkg: j.h.Pkg, Args: j.args, Arch: j.h.Arch, Failed: fmt.Sprintf("%s: %s at %s", v.Kind, v.Msg, v.Pos), Stack: v.Stack, Model: v.Model}
	b, _ := json.MarshalIndent(doc, "", " ")
	os.WriteFile(path, b, 0o644)
	return path
}

// nativeReplay compiles the harness natively (host arch, assembly active) with
// the recorded nondeterministic values and reports whether the violation shows.
func nativeReplay(path string) (bool, string) {
	b, err := os.ReadFile(path)
	if err != nil {
		return false, err.Error()
	}
	var tc struct {
		Typecheck string `json:"typecheck"`
		BMC       string `json:"bmc"`
	}
	if json.Unmarshal(b, &tc) == nil && tc.BMC != "" {
		return bmcNativeReplay(path)
	}
	if tc.Typecheck != "" {
		parts := strings.SplitN(tc.Typecheck, "/", 2)
		cmd := exec.Command("go", "build", "./...")
		cmd.Dir = repoDir
		cmd.Env = append(os.Environ(), "GOFLAGS=-mod=mod", "GOPROXY=off", "GOOS="+parts[0], "GOARCH="+parts[1], "CGO_ENABLED=0")
		out, err := cmd.CombinedOutput()
		return err != nil, string(out)
	}
	var doc replayDoc
	if err := json.Unmarshal(b, &doc); err != nil {
		return false, err.Error()
	}
	tmp, err := os.MkdirTemp("", "verif-replay-")
	if err != nil {
		return false, err.Error()
	}
	defer os.RemoveAll(tmp)
	pkgDir := filepath.Join(repoDir, doc.Pkg)
	pkgName := pkgNameOf(doc.Pkg)
	var as []string
	for _, a := range doc.Args {
		as = append(as, strconv.FormatInt(a, 10))
	}
	test := fmt.Sprintf(`package %s

import (
	"fmt"
	"testing"

	"github.com/deepteams/webp/internal/verifapi"
)

func TestVerifReplay(t *testing.T) {
	v, what := verifapi.RunReplay(func() { %s(%s) })
	if v {
		fmt.Println("REPLAY-VIOLATION:", what)
	} else {
		fmt.Println("REPLAY-OK", what)
	}
}
`, pkgName, doc.Harness, strings.Join(as, ", "))
	testPath := filepath.Join(tmp, "zz_verif_replay_test.go")
	os.WriteFile(testPath, []byte(test), 0o644)
	repl := map[string]string{filepath.Join(pkgDir, "zz_verif_replay_test.go"): testPath}
	root := filepath.Join(verifDir, "harness", "overlay")
	filepath.Walk(root, func(p string, info os.FileInfo, err error) error {
		if err != nil || info.IsDir() {
			return nil
		}
		rel, _ := filepath.Rel(root, p)
		repl[filepath.Join(repoDir, rel)] = p
		return nil
	})
	if patched, err := patchedSources(loadProps(), doc.Property); err == nil {
		for path, content := range patched {
			np := filepath.Join(tmp, fmt.Sprintf("patched_%d.go", len(repl)))
			os.WriteFile(np, content, 0o644)
			repl[path] = np
		}
	}
	for _, h := range loadProps().Harnesses {
		if h.Fn == doc.Harness && h.NativeRedirect {
			for path, content := range redirectOverlay(h.Redirect, repl) {
				np := filepath.Join(tmp, fmt.Sprintf("redir_%d.go", len(repl)))
				os.WriteFile(np, content, 0o644)
				repl[path] = np
			}
		}
	}
	ovb, _ := json.Marshal(map[string]interface{}{"Replace": repl})
	ovPath := filepath.Join(tmp, "overlay.json")
	os.WriteFile(ovPath, ovb, 0o644)
	rel := "./" + doc.Pkg
	if doc.Pkg == "" {
		rel = "."
	}
	args := []string{"test", "-vet=off", "-count=1", "-run", "^TestVerifReplay$", "-v", "-overlay", ovPath}
	if strings.HasPrefix(doc.Failed, "race:") {
		args = append(args, "-race") // footprint counterexamples are confirmed by the Go race detector on the real build
	}
	args = append(args, rel)
	cmd := exec.Command("go", args...)
	cmd.Dir = repoDir
	cmd.Env = append(os.Environ(), "GOFLAGS=-mod=mod", "GOPROXY=off", "VERIF_REPLAY="+path)
	done := make(chan struct{})
	var out []byte
	go func() { out, err = cmd.CombinedOutput(); close(done) }()
	select {
	case <-done:
	case <-time.After(5 * time.Minute):
		cmd.Process.Kill()
		<-done
		return false, "native replay timed out"
	}
	s := string(out)
	if strings.Contains(s, "REPLAY-VIOLATION:") {
		return true, s
	}
	if strings.HasPrefix(doc.Failed, "race:") && strings.Contains(s, "WARNING: DATA RACE") {
		return true, s
	}
	// a Go-level panic not caught (e.g. in another goroutine) also counts
	if strings.Contains(s, "panic:") && !strings.Contains(s, "REPLAY-OK") {
		return true, s
	}
	return false, s
}

func pkgNameOf(rel string) string {
	if rel == "" {
		return "webp"
	}
	return filepath.Base(rel)
}

func writeEvidence(prop, tier string, results []jobResult, wall time.Duration, nviol int, notes []string) {
	seed := 0
	if s := os.Getenv("VERIF_SEED"); s != "" {
		seed, _ = strconv.Atoi(s)
	}
	type hsum struct {
		Name      string   `json:"name"`
		Instances int      `json:"instances"`
		Shapes    []string `json:"shapes"`
		Paths     int      `json:"paths"`
		Obl       int      `json:"obligations"`
		Dis       int      `json:"discharged"`
		Queries   int      `json:"queries"`
		SolverS   float64  `json:"solver_s"`
		Covers    []string `json:"reach_witnesses"`
		Desc      string   `json:"desc,omitempty"`
		Bounds    map[string]int64 `json:"bounds,omitempty"`
		Stubs     []string `json:"stubs,omitempty"`
		Arch      string   `json:"goarch"`
	}
	hs := map[string]*hsum{}
	var order []string
	funcs := map[string]bool{}
	obl, dis, queries, nontrivial, nondets := 0, 0, 0, 0, 0
	solver := 0.0
	var samples []interface{}
	assume := map[string]bool{}
	for _, r := range results {
		h := hs[r.job.h.Fn]
		if h == nil {
			h = &hsum{Name: r.job.h.Fn, Desc: r.job.h.Desc, Bounds: map[string]int64{}, Arch: r.job.h.Arch}
			hs[r.job.h.Fn] = h
			order = append(order, r.job.h.Fn)
		}
		h.Instances++
		if len(h.Shapes) < 40 {
			h.Shapes = append(h.Shapes, fmt.Sprint(r.res.Args))
		}
		h.Paths += r.res.Paths
		h.Obl += r.res.Obligations
		h.Dis += r.res.Discharged
		h.Queries += r.res.Queries
		h.SolverS += r.res.SolverTime.Seconds()
		for k, v := range r.res.Bounds {
			if v > h.Bounds[k] {
				h.Bounds[k] = v
			}
		}
		for c, hit := range r.res.Covers {
			if hit {
				found := false
				for _, o := range h.Covers {
					if o == c {
						found = true
					}
				}
				if !found {
					h.Covers = append(h.Covers, c)
				}
			}
		}
		for _, s := range r.res.Stubs {
			found := false
			for _, o := range h.Stubs {
				if o == s {
					found = true
				}
			}
			if !found {
				h.Stubs = append(h.Stubs, s)
			}
		}
		for _, a := range r.job.h.Assume {
			assume[a] = true
		}
		obl += r.res.Obligations
		dis += r.res.Discharged
		queries += r.res.Queries
		nondets += r.res.Nondets
		solver += r.res.SolverTime.Seconds()
		if r.res.Err == "" && r.res.Discharged > 0 && r.res.Nondets > 0 {
			nontrivial++
		}
		for _, f := range r.res.Funcs {
			if strings.Contains(f, "deepteams/webp") && !strings.Contains(f, "verifapi") {
				funcs[strings.ReplaceAll(f, "github.com/deepteams/webp", "webp")] = true
			}
		}
		if len(samples) < 12 && r.res.Err == "" {
			samples = append(samples, map[string]interface{}{"harness": r.job.h.Fn, "shape": r.res.Args, "symbolic_inputs": r.res.Nondets, "paths": r.res.Paths,
				"obligations": r.res.Obligations, "discharged": r.res.Discharged, "queries": r.res.Queries, "solver_s": round2(r.res.SolverTime.Seconds()), "notes": r.res.Samples})
		}
	}
	var fl []string
	for f := range funcs {
		fl = append(fl, f)
	}
	sort.Strings(fl)
	var hl []*hsum
	for _, n := range order {
		hs[n].SolverS = round2(hs[n].SolverS)
		hl = append(hl, hs[n])
	}
	var al []string
	for a := range assume {
		al = append(al, a)
	}
	sort.Strings(al)
	al = append(al, "solver verdicts are trusted: z3 4.8.12 for every query; for queries z3 leaves undecided in its incremental session, a fresh z3 process and cvc5 1.0 run side by side and an unsat from either is accepted (models always come from z3); unknown/timeout/error => INCONCLUSIVE, exit 2",
		"SSA->SMT semantics of /verif/engine (bit-vector integers with Go wrap-around; floats concrete only)",
		"bounds: every harness instance fixes its shape parameters (sizes, counts); inside a shape all nondeterministic inputs are symbolic")
	if len(samples) == 0 {
		samples = append(samples, map[string]interface{}{"note": "no instance completed", "notes": notes})
	}
	ev := map[string]interface{}{
		"property_id": prop,
		"tier":        tier,
		"seed":        seed,
		"level":       "model_checking",
		"wall_s":      round2(wall.Seconds()),
		"violations":  nviol,
		"assumptions": al,
		"coverage": map[string]interface{}{
			"evaluations":         max1(queries),
			"distinct_nontrivial": nontrivial,
			"rule":                "one case = one harness instance (harness function x shape parameters) executed symbolically over the SSA of the current /repo tree; non-trivial = it has symbolic inputs and at least one obligation was discharged by the solver (unsat); evaluations = SMT queries issued",
			"samples":             samples,
			"obligations":         obl,
			"discharged":          dis,
			"inconclusive":        notes,
			"symbolic_inputs":     nondets,
			"functions_encoded":   fl,
			"harnesses":           hl,
			"solver":              "z3 4.8.12 (z3 -in, incremental push/pop)",
			"solver_s":            round2(solver),
			"exhaustive":          false,
			"explanation":         "bounded symbolic execution of the real functions (go/ssa of the working tree, GOARCH per harness) with every obligation decided by the SMT solver for all values of the symbolic inputs inside the stated shape bounds",
		},
	}
	os.MkdirAll(filepath.Join(outDir, "evidence"), 0o755)
	b, _ := json.MarshalIndent(ev, "", " ")
	os.WriteFile(filepath.Join(outDir, "evidence", prop+".json"), b, 0o644)
}

func round2(f float64) float64 { return float64(int64(f*100+0.5)) / 100 }
func max1(n int) int {
	if n < 1 {
		return 1
	}
	return n
}

// redirectOverlay builds, for native replay, patched copies of the repository files that declare
// the redirected functions: the original declaration is renamed <name>VerifReal and a forwarding
// declaration with the same signature calls the harness stub (same package only). This makes the
// native run use exactly the stubs the symbolic run used (they are part of the claim).
func redirectOverlay(redirects map[string]string, existing map[string]string) map[string][]byte {
	out := map[string][]byte{}
	type target struct{ dir, recv, name, to string }
	var ts []target
	for from, to := range redirects {
		from, to = expandName(from), expandName(to)
		var t target
		if strings.HasPrefix(from, "(*") {
			i := strings.Index(from, ").")
			full := from[2:i]
			j := strings.LastIndex(full, ".")
			t.dir, t.recv, t.name = strings.TrimPrefix(strings.TrimPrefix(full[:j], modPath), "/"), full[j+1:], from[i+2:]
		} else {
			j := strings.LastIndex(from, ".")
			t.dir, t.name = strings.TrimPrefix(strings.TrimPrefix(from[:j], modPath), "/"), from[j+1:]
		}
		k := strings.LastIndex(to, ".")
		toDir := strings.TrimPrefix(strings.TrimPrefix(to[:k], modPath), "/")
		if toDir != t.dir {
			continue // cross-package stub: the native run keeps the real function
		}
		t.to = to[k+1:]
		ts = append(ts, t)
	}
	byDir := map[string][]target{}
	for _, t := range ts {
		byDir[t.dir] = append(byDir[t.dir], t)
	}
	for dir, list := range byDir {
		files, _ := filepath.Glob(filepath.Join(repoDir, dir, "*.go"))
		for _, f := range files {
			if strings.HasSuffix(f, "_test.go") {
				continue
			}
			srcPath := f
			if alt, ok := existing[f]; ok {
				srcPath = alt // already replaced (e.g. by a threshold-scaling patch): patch that copy
			}
			src, err := os.ReadFile(srcPath)
			if err != nil {
				continue
			}
			fset := token.NewFileSet()
			af, err := parser.ParseFile(fset, f, src, parser.ParseComments)
			if err != nil {
				continue
			}
			type edit struct {
				pos  int
				text string
			}
			var edits []edit
			var extra strings.Builder
			for _, d := range af.Decls {
				fd, ok := d.(*ast.FuncDecl)
				if !ok || fd.Body == nil {
					continue
				}
				for _, t := range list {
					if fd.Name.Name != t.name {
						continue
					}
					recvName := ""
					if t.recv != "" {
						if fd.Recv == nil || len(fd.Recv.List) != 1 {
							continue
						}
						se, ok := fd.Recv.List[0].Type.(*ast.StarExpr)
						if !ok {
							continue
						}
						id, ok := se.X.(*ast.Ident)
						if !ok || id.Name != t.recv {
							continue
						}
						if len(fd.Recv.List[0].Names) == 1 {
							recvName = fd.Recv.List[0].Names[0].Name
						}
					} else if fd.Recv != nil {
						continue
					}
					// rename the original
					edits = append(edits, edit{fset.Position(fd.Name.End()).Offset, "VerifReal"})
					// forwarding declaration: signature text up to the body
					sig := string(src[fset.Position(fd.Pos()).Offset:fset.Position(fd.Body.Lbrace).Offset])
					var args []string
					if recvName != "" {
						args = append(args, recvName)
					}
					variadicLast := false
					for i, p := range fd.Type.Params.List {
						for _, n := range p.Names {
							args = append(args, n.Name)
						}
						if _, ok := p.Type.(*ast.Ellipsis); ok && i == len(fd.Type.Params.List)-1 {
							variadicLast = true
						}
					}
					call := t.to + "(" + strings.Join(args, ", ")
					if variadicLast {
						call += "..."
					}
					call += ")"
					if fd.Type.Results != nil && len(fd.Type.Results.List) > 0 {
						call = "return " + call
					}
					fmt.Fprintf(&extra, "\n%s{\n\t%s\n}\n", sig, call)
				}
			}
			if len(edits) == 0 {
				continue
			}
			sort.Slice(edits, func(i, j int) bool { return edits[i].pos > edits[j].pos })
			b := append([]byte(nil), src...)
			for _, e := range edits {
				b = append(b[:e.pos], append([]byte(e.text), b[e.pos:]...)...)
			}
			b = append(b, []byte(extra.String())...)
			out[f] = b
		}
	}
	return out
}

func firstLines(s string, n int) string {
	ls := strings.Split(s, "\n")
	if len(ls) > n {
		ls = ls[:n]
	}
	return strings.Join(ls, "\n")
}
