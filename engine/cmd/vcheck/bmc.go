package main

import (
	"encoding/json"
	"fmt"
	"go/types"
	"os"
	"os/exec"
	"path/filepath"
	"strings"
	"time"

	"golang.org/x/tools/go/ssa"

	"verif/engine/bmc"
	"verif/engine/sym"
)

// BMCSpec: SMT bounded model checking of a wait/signal protocol whose skeleton is extracted from SSA.
type BMCSpec struct {
	Wait        string `json:"wait"`         // method waiting for progress, e.g. "(*rowSync).waitFor"
	Signal      string `json:"signal"`       // method publishing progress
	WaitParam   int    `json:"wait_param"`   // SSA parameter index of the awaited value
	SignalParam int    `json:"signal_param"` // SSA parameter index of the published value
	Progress    string `json:"progress"`     // name of the progress field (post-condition of Wait: progress >= awaited)
	Template    string `json:"replay_template"`
	TimeoutS    int    `json:"timeout_s"`
}

func typesPointer(t *ssa.Type) types.Type { return types.NewPointer(t.Type()) }

func findFn(p *sym.Program, pkg, name string) *ssa.Function {
	sp := p.Pkgs[pkg]
	if sp == nil {
		return nil
	}
	// "(*T).m" or "f"
	if strings.HasPrefix(name, "(*") {
		i := strings.Index(name, ").")
		tn, mn := name[2:i], name[i+2:]
		t := sp.Type(tn)
		if t == nil {
			return nil
		}
		return p.Prog.LookupMethod(typesPointer(t), sp.Pkg, mn)
	}
	return sp.Func(name)
}

type bmcReplay struct {
	Property string   `json:"property"`
	BMC      string   `json:"bmc"`
	Pkg      string   `json:"pkg"`
	Signals  int      `json:"signals"`
	Needed   []int    `json:"needed"`
	Schedule []int    `json:"schedule"`
	Kinds    []string `json:"kinds"`
	Trace    []string `json:"trace"`
	Failed   string   `json:"failed"`
	Template string   `json:"replay_template"`
	File     string   `json:"source_file"`
}

// runBMCInstance checks one configuration (D signals 1..D, W waiters with symbolic awaited values in 0..D).
func runBMCInstance(p *sym.Program, h HarnessSpec, args []int64) (*sym.Result, *bmcReplay) {
	t1 := time.Now()
	res := &sym.Result{Harness: h.Fn, Args: args, Covers: map[string]bool{}, Bounds: map[string]int64{}}
	spec := h.BMC
	wf, sf := findFn(p, pkgPath(h.Pkg), spec.Wait), findFn(p, pkgPath(h.Pkg), spec.Signal)
	if wf == nil || sf == nil {
		res.Err = fmt.Sprintf("bmc: %s or %s not found in %s", spec.Wait, spec.Signal, h.Pkg)
		return res, nil
	}
	wsk, err := bmc.Extract(wf)
	if err != nil {
		res.Err = "bmc: " + err.Error()
		return res, nil
	}
	ssk, err := bmc.Extract(sf)
	if err != nil {
		res.Err = "bmc: " + err.Error()
		return res, nil
	}
	res.Funcs = []string{wf.String(), sf.String()}
	res.Samples = []string{wsk.String(), ssk.String()}
	D, W := int(args[0]), int(args[1])
	varSet := map[string]bool{}
	for _, v := range append(append([]string{}, wsk.Vars...), ssk.Vars...) {
		varSet[v] = true
	}
	if !varSet[spec.Progress] {
		res.Err = fmt.Sprintf("bmc: progress variable %q is not accessed atomically by %s/%s any more", spec.Progress, spec.Wait, spec.Signal)
		return res, nil
	}
	var vars []string
	for v := range varSet {
		vars = append(vars, v)
	}
	threads := []bmc.Thread{{Name: "signaller"}}
	for i := 1; i <= D; i++ {
		threads[0].Calls = append(threads[0].Calls, bmc.Call{Sk: ssk, Params: map[int]string{spec.SignalParam: fmt.Sprint(i)}})
		threads[0].Post = append(threads[0].Post, "")
	}
	var extra []string
	for w := 0; w < W; w++ {
		n := fmt.Sprintf("needed_%d", w)
		extra = append(extra, fmt.Sprintf("(and (<= 0 %s) (<= %s %d))", n, n, D))
		threads = append(threads, bmc.Thread{Name: fmt.Sprintf("waiter%d", w),
			Calls: []bmc.Call{{Sk: wsk, Params: map[int]string{spec.WaitParam: n}}},
			Post:  []string{fmt.Sprintf("(>= %s@ %s)", spec.Progress, n)}})
	}
	decl := ""
	for w := 0; w < W; w++ {
		decl += fmt.Sprintf("(declare-const needed_%d Int)\n", w)
	}
	// step bound: every signaller op once per call; every waiter op at most once per wake-up (D broadcasts + first pass)
	K := D*len(ssk.Ops) + W*len(wsk.Ops)*(D+1)
	res.Bounds["signals"] = int64(D)
	res.Bounds["waiters"] = int64(W)
	res.Bounds["scheduler_steps"] = int64(K)
	to := time.Duration(spec.TimeoutS) * time.Second
	if to == 0 {
		to = 300 * time.Second
	}
	type out struct {
		mode string
		r    bmc.Result
	}
	ch := make(chan out, 3)
	for _, mode := range []string{"bad", "unwind", "witness"} {
		go func(mode string) { ch <- out{mode, bmc.CheckDecl(decl, threads, vars, K, extra, to, mode)} }(mode)
	}
	var rep *bmcReplay
	for i := 0; i < 3; i++ {
		o := <-ch
		res.Queries++
		res.SolverTime += o.r.Time
		res.Obligations++
		switch o.mode {
		case "bad":
			switch o.r.Verdict {
			case "unsat":
				res.Discharged++
			case "sat":
				msg := "deadlock / lost wake-up or early return of " + spec.Wait + " reachable"
				res.Violations = append(res.Violations, sym.Violation{Kind: "bmc", Msg: msg, Pos: wsk.Ops[0].Pos, Stack: o.r.Trace})
				rep = &bmcReplay{BMC: h.Fn, Pkg: h.Pkg, Signals: D, Needed: neededOf(o.r.Model, W), Schedule: o.r.Schedule, Kinds: o.r.Kinds, Trace: o.r.Trace, Failed: "bmc: " + msg, Template: spec.Template,
					File: strings.SplitN(wsk.Ops[0].Pos, ":", 2)[0]}
			default:
				res.Inconclusive = append(res.Inconclusive, fmt.Sprintf("bmc query undecided within %s (%s)", to, strings.Join(o.r.Trace, " ")))
			}
		case "unwind":
			switch o.r.Verdict {
			case "unsat":
				res.Discharged++
			case "sat":
				res.Inconclusive = append(res.Inconclusive, fmt.Sprintf("unwinding assertion failed: some thread can still move after %d steps", K))
			default:
				res.Inconclusive = append(res.Inconclusive, "unwinding query undecided")
			}
		case "witness":
			// vacuity: an execution in which a waiter really sleeps and is woken must exist
			res.Covers["a waiter sleeps in Cond.Wait and is woken by a broadcast"] = o.r.Verdict == "sat"
			if o.r.Verdict == "sat" {
				res.Discharged++
			}
		}
	}
	res.Paths = 1
	res.Nondets = K + W
	res.Wall = time.Since(t1)
	return res, rep
}

func writeBMCReplay(prop string, rep *bmcReplay, args []int64) string {
	dir := filepath.Join(outDir, "replay", prop)
	os.MkdirAll(dir, 0o755)
	rep.Property = prop
	path := filepath.Join(dir, fmt.Sprintf("%s-%d_%d.json", rep.BMC, args[0], args[1]))
	b, _ := json.MarshalIndent(rep, "", " ")
	os.WriteFile(path, b, 0o644)
	return path
}

// bmcNativeReplay runs the REAL functions natively under the counterexample schedule: the source file is
// compiled with "sync" and "sync/atomic" replaced by scheduling shims (internal/verifapi/vsync, vatomic)
// that let each visible operation proceed only when the schedule says so, then free-run; the test reports
// whether the goroutines are stuck / returned early.
func bmcNativeReplay(path string) (bool, string) {
	b, err := os.ReadFile(path)
	if err != nil {
		return false, err.Error()
	}
	var rep bmcReplay
	if err := json.Unmarshal(b, &rep); err != nil {
		return false, err.Error()
	}
	tmp, err := os.MkdirTemp("", "verif-bmcreplay-")
	if err != nil {
		return false, err.Error()
	}
	defer os.RemoveAll(tmp)
	repl := map[string]string{}
	root := filepath.Join(verifDir, "harness", "overlay")
	filepath.Walk(root, func(p string, info os.FileInfo, err error) error {
		if err != nil || info.IsDir() {
			return nil
		}
		rel, _ := filepath.Rel(root, p)
		repl[filepath.Join(repoDir, rel)] = p
		return nil
	})
	src, err := os.ReadFile(rep.File)
	if err != nil {
		return false, err.Error()
	}
	s := string(src)
	if !strings.Contains(s, "\t\"sync\"\n") || !strings.Contains(s, "\t\"sync/atomic\"\n") {
		return false, "replay shim: import lines of " + rep.File + " not recognised"
	}
	s = strings.Replace(s, "\t\"sync\"\n", "\tsync \"github.com/deepteams/webp/internal/verifapi/vsync\"\n", 1)
	s = strings.Replace(s, "\t\"sync/atomic\"\n", "\tatomic \"github.com/deepteams/webp/internal/verifapi/vatomic\"\n", 1)
	shimmed := filepath.Join(tmp, "shimmed.go")
	os.WriteFile(shimmed, []byte(s), 0o644)
	repl[rep.File] = shimmed
	tpl, err := os.ReadFile(filepath.Join(verifDir, "harness", rep.Template))
	if err != nil {
		return false, err.Error()
	}
	testPath := filepath.Join(tmp, "zz_verif_bmc_test.go")
	os.WriteFile(testPath, tpl, 0o644)
	repl[filepath.Join(repoDir, rep.Pkg, "zz_verif_bmc_test.go")] = testPath
	ovb, _ := json.Marshal(map[string]interface{}{"Replace": repl})
	ovPath := filepath.Join(tmp, "overlay.json")
	os.WriteFile(ovPath, ovb, 0o644)
	cmd := exec.Command("go", "test", "-vet=off", "-count=1", "-run", "^TestVerifBMCReplay$", "-v", "-overlay", ovPath, "./"+rep.Pkg)
	cmd.Dir = repoDir
	cmd.Env = append(os.Environ(), "GOFLAGS=-mod=mod", "GOPROXY=off", "VERIF_REPLAY="+path)
	done := make(chan struct{})
	var out []byte
	go func() { out, err = cmd.CombinedOutput(); close(done) }()
	select {
	case <-done:
	case <-time.After(5 * time.Minute):
		cmd.Process.Kill()
		<-done
		return false, "native replay timed out"
	}
	so := string(out)
	return strings.Contains(so, "REPLAY-VIOLATION:"), so
}

func neededOf(m map[string]string, W int) []int {
	var r []int
	for w := 0; w < W; w++ {
		n := 0
		fmt.Sscanf(m[fmt.Sprintf("needed_%d", w)], "%d", &n)
		r = append(r, n)
	}
	return r
}
